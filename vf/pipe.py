"""Helpers to drive the real pipeline functions from the harness (no repository hooks needed)."""
from __future__ import annotations

import csv
import gzip
import importlib
import io
import logging
import os
import sys
import types


def make_args(**kw):
    """Argument namespace with the CLI defaults of outrank.__main__ (kept in sync by reading the parser when possible)."""
    d = dict(
        task='ranking', minibatch_size=2 ** 14, output_folder='ranking_outputs', data_source='csv-raw', data_path=None,
        subsampling=1, combination_number_upper_bound=2 ** 15, missing_value_symbols=',{}', heuristic='MI-numba-randomized',
        include_noise_baseline_features='False', include_cardinality_in_feature_names='True', image_format='pdf',
        num_threads=1, label_column='label', max_unique_hist_constraint=30000, transformers='none',
        rare_value_count_upper_bound=1, feature_set_focus=None, interaction_order=1, reference_model_JSON='',
        target_ranking_only='True', explode_multivalue_features='False', subfeature_mapping='False',
        num_synthetic_features=100, tldr='False', num_synthetic_rows=1000, generator_type='naive',
        output_synthetic_df_name='test_data_synthetic', disable_tqdm='True', mi_stratified_sampling_ratio=1.0,
    )
    d.update(kw)
    return types.SimpleNamespace(**d)


class _Result:
    """What pathos' amap/apipe return: an AsyncResult (ready / wait / successful / get)."""

    def __init__(self, values):
        self._v = values

    def ready(self):
        return True

    def wait(self, timeout=None):
        return None

    def successful(self):
        return True

    def get(self, timeout=None):
        return self._v


class SyncPool:
    """In-process stand-in for pathos' ProcessingPool with the pool's whole calling protocol (map / imap / uimap / amap / pipe / apipe,
    several iterables per call, chunksize keyword, context manager, close / join / terminate / clear / restart), so that a change of
    *which* pool call the product uses is not mistaken for a change of behaviour.  Results are positional for map / imap / amap; uimap
    yields in evaluation order (any order is legitimate there).  Sub-classes observe the submitted tasks through observe()."""

    ncpus = nodes = 1

    def __init__(self, order=None):
        self.calls = 0
        self.order = order  # optional permutation function to evaluate tasks in another order (results stay positional)

    def __enter__(self):
        return self

    def __exit__(self, *a):
        return False

    def observe(self, items):
        pass

    def _run(self, fn, iterables):
        self.calls += 1
        items = list(zip(*[list(it) for it in iterables]))
        self.observe([it[0] if len(it) == 1 else it for it in items])
        idx = list(range(len(items)))
        if self.order is not None:
            idx = self.order(idx)
        out = [None] * len(items)
        for i in idx:
            out[i] = fn(*items[i])
        return out, idx

    def map(self, fn, *iterables, **kw):
        return self._run(fn, iterables)[0]

    def imap(self, fn, *iterables, **kw):
        return iter(self._run(fn, iterables)[0])

    def uimap(self, fn, *iterables, **kw):
        out, idx = self._run(fn, iterables)
        return iter([out[i] for i in idx])

    def amap(self, fn, *iterables, **kw):
        return _Result(self._run(fn, iterables)[0])

    def pipe(self, fn, *a, **kw):
        self.calls += 1
        return fn(*a, **kw)

    def apipe(self, fn, *a, **kw):
        return _Result(fn(*a, **kw))

    def close(self):
        pass

    def join(self):
        pass

    def terminate(self):
        pass

    def clear(self):
        pass

    def restart(self, force=False):
        pass


class NullPbar:
    """Progress-bar argument of the pipeline functions: accepts the whole tqdm calling protocol and does nothing (which progress-bar
    calls the product makes is not part of any property)."""
    n = 0
    total = None
    disable = True

    def set_description(self, *a, **k):
        pass

    def update(self, *a, **k):
        pass

    def close(self):
        pass

    def __enter__(self):
        return self

    def __exit__(self, *a):
        return False

    def __iter__(self):
        return iter(())

    def __getattr__(self, name):
        if name.startswith('__'):
            raise AttributeError(name)
        return lambda *a, **k: None


class ListLogger:
    """Logger argument of the pipeline functions; keeps every message, accepts the whole logging.Logger calling protocol."""

    def __init__(self):
        self.messages = []

    def info(self, msg, *a, **k):
        self.messages.append(str(msg))

    warning = warn = error = debug = critical = exception = fatal = info

    def log(self, level, msg, *a, **k):
        self.messages.append(str(msg))

    def isEnabledFor(self, level):
        return True

    def getEffectiveLevel(self):
        return 0

    def __getattr__(self, name):
        if name.startswith('__'):
            raise AttributeError(name)
        return lambda *a, **k: None


class _FastTime:
    """Shim for core_ranking.time: the result-polling loop sleeps 4 s per poll; polling frequency is not part of any property."""

    def __init__(self, real):
        self._real = real

    def sleep(self, s):
        self._real.sleep(min(s, 0.01))

    def __getattr__(self, k):
        return getattr(self._real, k)


def quiet():
    logging.disable(logging.CRITICAL)


def fresh_core_ranking(fast_time=True):
    """(Re)import outrank.core_ranking so that its module-level state (sketches, counters, RNG seed) is pristine."""
    quiet()
    import outrank.core_ranking as cr
    cr = importlib.reload(cr)
    if fast_time:
        import time as _t
        cr.time = _FastTime(_t)
    return cr


def write_csv(path, header, rows, gz=False, raw_lines=None, newline='\n'):
    """Write a csv-raw data set. ``raw_lines`` (index -> literal line) lets the caller inject malformed rows."""
    buf = io.StringIO()
    w = csv.writer(buf, lineterminator=newline)
    w.writerow(header)
    for i, r in enumerate(rows):
        if raw_lines and i in raw_lines:
            buf.write(raw_lines[i] + newline)
        else:
            w.writerow(r)
    data = buf.getvalue()
    if gz:
        with gzip.open(path, 'wt', encoding='utf-8', newline='') as f:
            f.write(data)
    else:
        with open(path, 'w', encoding='utf-8', newline='') as f:
            f.write(data)
    return data


def codes_sorted(values):
    """Independent category coding: rank of each value among the sorted distinct values (what 'category codes' means)."""
    distinct = sorted(set(values))
    rank = {v: i for i, v in enumerate(distinct)}
    return [rank[v] for v in values]


def run_cli(flags):
    """Run the command-line entry point in-process: outrank.__main__.main() with sys.argv built from ``flags``.

    The tasks exit() in several places; SystemExit is swallowed. Returns the parsed-equivalent namespace for convenience."""
    import outrank.__main__ as m
    argv = ['outrank']
    for k, v in flags.items():
        argv += ['--' + k, str(v)]
    old = sys.argv
    sys.argv = argv
    try:
        m.main()
    except SystemExit:
        pass
    finally:
        sys.argv = old
