"""C02 - scores depend on co-occurrence structure only; self-pair rule exactly for identical vectors (metamorphic monitor)."""
from __future__ import annotations

from vf import gen, oracles

PROPERTY = 'C02'
RULE = ('cases = (Y, X, relabelling f of Y, relabelling g of X): C01 structures x {random permutation of used codes, +offset, '
        'order reversal, sparse recoding into [0,2^20), swap of two codes}, scored with and without correction before and after; '
        'a targeted family of non-identical pairs that the self-pair test could confuse (Y = permutation of X, equal histograms, '
        'equal sums with different histograms, two swapped positions) and identical pairs; pairs that agree on the rows kept by a sampling ratio < 1 but differ elsewhere; exhaustive: all pairs of set partitions '
        'of n<=5 rows x all injective relabellings of X onto <= n+1 codes (quick) ; plus pipeline runs of mixed_rank_graph on a frame '
        'and on the same frame with values renamed so that their sort order (category codes) is reversed. distinct = (joint '
        'structure signature, relabelling kind); non-trivial = corrected and plain model values differ by more than 10*tol, so '
        'that applying or skipping the self-pair rule is observable.')
REQUIRED = {'relabel-plain': 100, 'relabel-corrected': 100, 'self-rule-only-identical': 50, 'self-rule-identical': 20, 'pipeline-coding': 4}
EXHAUSTIVE_NOTE = {'quick': 'all pairs of set partitions of n<=5 rows x all injective maps of X codes into range(n+1)',
                   'thorough': 'all pairs of set partitions of n<=6 rows x all injective maps of X codes into range(n+1) (n<=5) / 300 sampled maps (n=6)'}
ASSUMPTIONS = ['float32 tolerance as in C01', 'relabellings that turn a non-identical pair into an identical one (or back) are excluded from the corrected comparison: the statement itself makes the two cases differ',
               'the displaced-copy model of C03 is used to tell "correction applied" from "plain score"']
WARM = [{}]
WARM_CODE = 'import outrank.core_ranking'


def plan(tier, seed):
    shards = []
    k = 4 if tier == 'quick' else 10
    for i in range(k):
        shards.append({'name': 'exhaustive-%d' % i, 'fn': 'shard_exhaustive', 'args': {'part': i, 'parts': k, 'nmax': 5 if tier == 'quick' else 6}})
    nr = 6 if tier == 'quick' else 12
    for i in range(nr):
        shards.append({'name': 'random-%d' % i, 'fn': 'shard_random', 'args': {'part': i, 'parts': nr}})
    shards.append({'name': 'random-interpreted', 'fn': 'shard_random', 'args': {'part': 1, 'parts': nr}, 'env': {'NUMBA_DISABLE_JIT': '1'}})     # kernels run by the interpreter
    for i in range(2 if tier == 'quick' else 4):
        shards.append({'name': 'targeted-%d' % i, 'fn': 'shard_targeted', 'args': {'part': i}})
    for i in range(2 if tier == 'quick' else 4):
        shards.append({'name': 'near-identical-subsampled-%d' % i, 'fn': 'shard_near_identical_subsampled', 'args': {'part': i}})
    for i in range(2):
        shards.append({'name': 'one-row-apart-%d' % i, 'fn': 'shard_one_row_apart', 'args': {'part': i}})
    shards.append({'name': 'views', 'fn': 'shard_views', 'args': {}})
    shards.append({'name': 'pipeline', 'fn': 'shard_pipeline', 'args': {}})
    return shards


def _est():
    import numpy as np
    from outrank.algorithms.feature_ranking import ranking_mi_numba as m
    one = np.float32(1.0)

    def est(Y, X, c):
        return float(m.mutual_info_estimator_numba(np.ascontiguousarray(Y, dtype=np.int32), np.ascontiguousarray(X, dtype=np.int32), one, bool(c)))
    return est


def relabel(kind, v, rng, nprng):
    import numpy as np
    used = np.unique(v)
    if kind == 'perm':
        m = dict(zip(used.tolist(), nprng.permutation(used).tolist()))
    elif kind == 'offset':
        room = (1 << 20) - 1 - int(used.max())
        off = rng.randint(1, room) if room >= 1 else 0
        m = {int(u): int(u) + off for u in used}
    elif kind == 'reverse':
        mx = int(used.max())
        m = {int(u): mx - int(u) for u in used}
    elif kind == 'sparse':
        tgt = nprng.choice(1 << 20, len(used), replace=False)
        m = dict(zip(used.tolist(), tgt.tolist()))
    elif kind == 'swap2':
        m = {int(u): int(u) for u in used}
        if len(used) >= 2:
            a, b = rng.sample(used.tolist(), 2)
            m[a], m[b] = b, a
    elif kind == 'identity':
        m = {int(u): int(u) for u in used}
    else:
        raise ValueError(kind)
    return np.array([m[int(x)] for x in v], dtype=np.int32)


KINDS = ['perm', 'offset', 'reverse', 'sparse', 'swap2']


def observe(sh, est, Y, X, fY, gX, kind, cls, sample=False):
    import numpy as np
    wit = lambda **kw: dict(kw, kind=kind, cls=cls, n=len(X), Y=Y[:200], X=X[:200], fY=fY[:200], gX=gX[:200])  # noqa: E731
    ident0, ident1 = bool(np.array_equal(Y, X)), bool(np.array_equal(fY, gX))
    ok, p0 = sh.call('relabel-plain', 'estimator', est, Y, X, False)
    ok2, p1 = sh.call('relabel-plain', 'estimator', est, fY, gX, False)
    if not (ok and ok2):
        return
    sh.check('relabel-plain', oracles.close32(p0, p1, 2.0), 'plain-score-depends-on-codes', lambda: wit(before=p0, after=p1))
    ok, c0 = sh.call('relabel-corrected', 'estimator', est, Y, X, True)
    ok2, c1 = sh.call('relabel-corrected', 'estimator', est, fY, gX, True)
    if not (ok and ok2):
        return
    if ident0 == ident1:
        sh.check('relabel-corrected', oracles.close32(c0, c1, 2.0), 'corrected-score-depends-on-codes', lambda: wit(before=c0, after=c1))
    else:
        sh.classes['identity-changed-by-relabelling(skipped)'] += 1
    # self-pair rule: applied exactly to identical vectors
    nontrivial = False
    for (a, b, ident, got, tag) in ((Y, X, ident0, c0, 'orig'), (fY, gX, ident1, c1, 'relabelled')):
        model_c = oracles.corrected_model(a, b)
        if ident:
            sh.check('self-rule-identical', oracles.close32(got, oracles.entropy(b)), 'identical-pair-not-entropy', lambda: wit(got=got, which=tag))
        else:
            plain = oracles.plugin_mi(a, b)
            if abs(plain - model_c) > 10 * (oracles.TOL_ABS + oracles.TOL_REL * abs(plain)):
                nontrivial = True
                sh.check('self-rule-only-identical', oracles.close32(got, model_c), 'self-rule-on-non-identical-pair' if oracles.close32(got, plain) else 'corrected!=model',
                         lambda: wit(got=got, model_corrected=model_c, model_plain=plain, which=tag))
    sh.case((gen.joint_signature(Y, X), kind), nontrivial, cls + '/' + kind,
            sample={'Y': Y[:16], 'X': X[:16], 'fY': fY[:16], 'gX': gX[:16], 'kind': kind, 'plain': [p0, p1], 'corrected': [c0, c1]} if sample else None)


def shard_exhaustive(sh, part, parts, nmax):
    import itertools
    import numpy as np
    est = _est()
    rng = sh.rng('exh')
    k = 0
    for n in range(2, nmax + 1):
        P = [np.array(p, dtype=np.int32) for p in gen.rgs(n)]
        mine = gen.chunks(range(len(P)), parts)[part]
        for i in mine:
            for j in range(len(P)):
                X = P[j]
                used = sorted(set(X.tolist()))
                maps = list(itertools.permutations(range(n + 1), len(used)))
                if n >= 6 and len(maps) > 300:
                    maps = rng.sample(maps, 300)
                elif n == 5 and sh.tier == 'quick' and len(maps) > 40:
                    maps = rng.sample(maps, 40)
                for m in maps:
                    k += 1
                    lut = dict(zip(used, m))
                    gX = np.array([lut[int(x)] for x in X], dtype=np.int32)
                    observe(sh, est, P[i], X, P[i], gX, 'inj-map', 'exhaustive-n%d' % n, sample=(k % 20000 == 1))
    sh.notes['exhaustive_cases'] = k


def shard_random(sh, part, parts):
    import random
    est = _est()
    rng, nprng = sh.rng('random', part), sh.nprng('random', part)
    sizes = [2, 3, 5, 8, 13, 50, 200, 1000]
    reps = 2 if sh.tier == 'quick' else 8
    todo = [(cls, n, kind, r) for cls in gen.PAIR_CLASSES for n in sizes for kind in KINDS for r in range(reps)]
    random.Random(sh.seed).shuffle(todo)
    for t, (cls, n, kind, r) in enumerate(gen.chunks(todo, parts)[part]):
        Y, X = gen.random_pair(rng, nprng, cls, n)
        ky, kx = (kind, rng.choice(KINDS + ['identity'])) if rng.random() < 0.5 else (rng.choice(KINDS + ['identity']), kind)
        fY, gX = relabel(ky, Y, rng, nprng), relabel(kx, X, rng, nprng)
        observe(sh, est, Y, X, fY, gX, ky + '|' + kx, cls, sample=(t % 300 == 0))


def shard_targeted(sh, part):
    """Non-identical pairs that an insufficient self-pair test would mistake for the diagonal."""
    import numpy as np
    est = _est()
    rng, nprng = sh.rng('targeted', part), sh.nprng('targeted', part)
    reps = 12 if sh.tier == 'quick' else 60
    for rep in range(reps):
        for n in (6, 20, 100, 500, 2000):
            card = rng.choice([2, 3, 5, 10, 30, max(2, n // 4)])
            X = nprng.integers(0, card, n).astype(np.int32)
            fam = {}
            fam['permutation-of-X'] = nprng.permutation(X).astype(np.int32)
            Y = X.copy()
            d = np.flatnonzero(X != X[0])
            if len(d):
                i, j = 0, int(d[rng.randrange(len(d))])
                Y[i], Y[j] = X[j], X[i]
            fam['two-positions-swapped'] = Y
            # equal sums, different histograms: +1 at one row, -1 at another
            Y = X.copy()
            up = np.flatnonzero(X < card)
            dn = np.flatnonzero(X > 0)
            if len(up) and len(dn):
                a, b = int(up[rng.randrange(len(up))]), int(dn[rng.randrange(len(dn))])
                if a != b:
                    Y[a] += 1
                    Y[b] -= 1
            fam['equal-sum-different-histogram'] = Y
            fam['same-histogram-sorted'] = np.sort(X).astype(np.int32)
            fam['reversed'] = X[::-1].copy()
            fam['identical'] = X.copy()
            fam['identical-content-offset'] = (X + 1).astype(np.int32)
            for name, Yv in fam.items():
                kind = rng.choice(KINDS)
                fY, gX = relabel(kind, Yv, rng, nprng), relabel(rng.choice(KINDS + ['identity']), X, rng, nprng)
                observe(sh, est, Yv, X, fY, gX, kind, 'targeted/' + name, sample=(rep == 0 and n == 20))


def shard_one_row_apart(sh, part):
    """Two vectors that differ in a single row (the first, the last, one in the middle) are different vectors at every length - in
    particular at lengths around the block sizes a chunked or vectorised comparison would use (2^k and 2^k +- 1, non-multiples)."""
    import numpy as np
    est = _est()
    rng, nprng = sh.rng('one-row', part), sh.nprng('one-row', part)
    sizes = [2, 3, 7, 8, 9, 63, 64, 65, 255, 256, 257, 1023, 1024, 1025, 4095, 4096, 4097, 5000, 8191, 8193, 12289, 16383, 16385, 16500, 20000, 65537]
    if sh.tier == 'thorough':
        sizes += [32769, 100003, 131073, 262145]
    for n in sizes[part::2]:
        for rep in range(2):
            card = rng.choice([2, 5, 30])
            X = nprng.integers(0, card, n).astype(np.int32)
            for where in ('last', 'first', 'middle', 'last-few'):
                Y = X.copy()
                rows = {'last': [n - 1], 'first': [0], 'middle': [n // 2], 'last-few': list(range(max(0, n - 1 - n % 7), n))}[where]
                for r_ in rows:
                    Y[r_] = (X[r_] + 1) % (card + 1)
                kind = rng.choice(KINDS)
                observe(sh, est, Y, X, relabel(kind, Y, rng, nprng), relabel('identity', X, rng, nprng), kind, 'one-row-apart/' + where, sample=(n == 16500 and where == 'last'))


def shard_near_identical_subsampled(sh, part):
    """Self-pair rule under a sampling ratio < 1: vectors that agree on the sampled rows only are still different vectors."""
    import numpy as np
    from outrank.algorithms.feature_ranking import ranking_mi_numba as m
    rng, nprng = sh.rng('near', part), sh.nprng('near', part)
    reps = 40 if sh.tier == 'quick' else 200
    for rep in range(reps):
        n = rng.choice([12, 40, 200, 1000])
        card = rng.choice([2, 3, 5, 12])
        X = nprng.integers(0, card, n).astype(np.int32)
        r = float(np.float32(rng.choice([0.2, 0.35, 0.5, 0.7, 0.9])))
        rows, S, q = oracles.subsample_model(X, r)
        if rows is None or len(rows) >= n:
            continue
        outside = np.setdiff1d(np.arange(n), np.array(rows))
        for variant in ('differs-outside-sample', 'differs-in-last-row', 'identical'):
            Y = X.copy()
            if variant == 'differs-outside-sample':
                pick = outside[nprng.choice(len(outside), max(1, len(outside) // 2), replace=False)]
                Y[pick] = (X[pick] + 1) % (card + 1)
            elif variant == 'differs-in-last-row':
                j = int(outside[-1])
                Y[j] = (X[j] + 1) % (card + 1)
            ok, got = sh.call('self-rule-only-identical', 'estimator', m.mutual_info_estimator_numba, Y, X, np.float32(r), True)
            if not ok:
                continue
            got = float(got)
            model_c = oracles.subsampled_score_model(Y, X, r, True)
            alt = oracles.subsampled_score_model(Y, X, r, True, rows_override=sorted(rows))
            plain = oracles.subsampled_score_model(Y, X, r, False)
            wit = lambda: {'variant': variant, 'n': n, 'r': r, 'X': X[:200], 'Y': Y[:200], 'got': got, 'model_corrected': model_c, 'model_uncorrected': plain}  # noqa: E731
            if variant == 'identical':
                sh.check('self-rule-identical', oracles.close32(got, plain), 'identical-pair-not-uncorrected', wit)
            else:
                sh.check('self-rule-only-identical', oracles.close32(got, model_c) or oracles.close32(got, alt), 'self-rule-on-non-identical-pair', wit)
            sh.case((gen.joint_signature(Y, X), variant, r), abs(model_c - plain) > 10 * oracles.TOL_ABS, 'subsampled/' + variant,
                    sample={'variant': variant, 'n': n, 'r': r, 'X': X[:16], 'Y': Y[:16], 'score': got, 'model': model_c} if rep == 0 else None)


def shard_views(sh):
    """Two different vectors that are overlapping views of one buffer (a sequence and its own lag, strided views) are not a self pair;
    scored through importance_estimator.numba_mi by heuristic name."""
    import numpy as np
    from outrank.algorithms import importance_estimator as ie
    rng, nprng = sh.rng('views'), sh.nprng('views')
    for t in range(60 if sh.tier == 'quick' else 300):
        n = rng.choice([30, 200, 1000])
        card = rng.choice([2, 3, 5, 9])
        buf = nprng.integers(0, card, n + 60).astype(np.int32)
        if rng.random() < 0.5:     # auto-correlated sequence
            for i in range(1, len(buf)):
                if nprng.random() < 0.6:
                    buf[i] = buf[i - 1]
        lag = rng.choice([1, 2, 50])
        kind = rng.choice(['lag', 'strided', 'same-view'])
        if kind == 'lag':
            a, b = buf[:n], buf[lag:lag + n]
        elif kind == 'strided':
            a, b = buf[:n:2], buf[1:n:2]
        else:
            a, b = buf[:n], buf[:n]
        for heuristic, corrected in (('MI-numba-randomized', True), ('MI-numba-3mr', False)):
            ok, got = sh.call('self-rule-only-identical', 'numba_mi', ie.numba_mi, a, b, heuristic, 1.0)
            if not ok:
                continue
            got = float(got)
            ac, bc = np.ascontiguousarray(a).copy(), np.ascontiguousarray(b).copy()
            exp = oracles.corrected_model(ac, bc) if corrected else oracles.plugin_mi(ac, bc)
            ident = bool(np.array_equal(ac, bc))
            sh.check('self-rule-identical' if ident else 'self-rule-only-identical', oracles.close32(got, exp), 'overlapping-views-scored-as-self-pair' if not ident else 'identical-pair-not-entropy',
                     lambda: {'kind': kind, 'lag': lag, 'heuristic': heuristic, 'got': got, 'model': exp, 'entropy_of_first': oracles.entropy(ac), 'a': ac[:60], 'b': bc[:60]})
        sh.case((gen.joint_signature(np.ascontiguousarray(a), np.ascontiguousarray(b)), 'views', kind), kind != 'same-view', 'views/' + kind)


def shard_pipeline(sh):
    """Pipeline coding clause: renaming the values of every column by an order-reversing bijection permutes cat.codes only."""
    import numpy as np
    import pandas as pd
    from vf import pipe
    cr = pipe.fresh_core_ranking()
    rng, nprng = sh.rng('pipe'), sh.nprng('pipe')
    runs = 6 if sh.tier == 'quick' else 30
    for run in range(runs):
        n = rng.choice([60, 300, 1500])
        ncol = rng.randint(2, 5)
        cols = ['f%d' % i for i in range(ncol)] + ['label']
        data = {}
        base = nprng.integers(0, 2, n)
        for c in cols:
            card = rng.choice([2, 3, 7, 20, max(2, n // 5)])
            v = nprng.integers(0, card, n)
            if rng.random() < 0.5:
                v = np.where(nprng.random(n) < 0.6, base * (card - 1), v)
            data[c] = ['v%05d' % x for x in v]
        if rng.random() < 0.5 and ncol >= 2:
            data['f1'] = list(nprng.permutation(data['f0']))  # equal histograms, different vectors
        df = pd.DataFrame(data)
        # order-reversing bijection per column: v00012 -> w99987
        df2 = pd.DataFrame({c: ['w%05d' % (99999 - int(x[1:])) for x in df[c]] for c in cols})
        res = []
        for heuristic in ('MI-numba-randomized', 'MI-numba-3mr'):
            for frame in (df, df2):
                args = pipe.make_args(heuristic=heuristic, target_ranking_only='False', combination_number_upper_bound=10 ** 6)
                ok, out = sh.call('pipeline-coding', 'mixed_rank_graph', cr.mixed_rank_graph, frame, args, pipe.SyncPool(), pipe.NullPbar())
                if not ok:
                    return
                res.append({(a, b): float(s) for a, b, s in out.triplet_scores})
            a, b = res[-2], res[-1]
            same_keys = set(a) == set(b)
            bad = [(k, a[k], b.get(k)) for k in a if k not in b or not oracles.close32(a[k], b[k], 2.0)]
            sh.check('pipeline-coding', same_keys and not bad, 'pipeline-score-depends-on-value-names',
                     lambda: {'heuristic': heuristic, 'differences': bad[:5], 'n': n, 'columns': cols, 'head': df.head(5).values.tolist()})
        vals = sorted(set(round(v, 4) for v in res[0].values()))
        sh.case(('pipeline', run, n, ncol), len(vals) > 2, 'pipeline',
                sample={'columns': cols, 'rows': n, 'n_pairs': len(res[0]), 'first_row': df.iloc[0].tolist(), 'renamed_first_row': df2.iloc[0].tolist()} if run == 0 else None)
