"""C04 - sub-sampled estimation: memory-safe, deterministic, sample-only.

Sanitizer-style monitoring of the JIT-compiled estimator: the same case list is executed in several fresh interpreters
with different glibc heap poisoning (MALLOC_PERTURB_), in one interpreter with numba's bounds sanitizer
(NUMBA_BOUNDSCHECK=1), in-process after heap grooming (freed blocks of the index buffer's size pre-filled with plausible and
hostile index values), and (thorough) under valgrind memcheck. Observations: process exit status, exceptions, the float
bits of every score (compared across all executions), a float64 model of the documented sampling rule, and metamorphic
insensitivity to feature values outside the model's sample.
"""
from __future__ import annotations

import os

from vf import core, gen, oracles

PROPERTY = 'C04'
RULE = ('cases = (Y, X, r, correction flag): every pair of set partitions of n<=5 (quick) / n<=6 (thorough) rows x every r = k/(n+1), '
        'plus seeded random/targeted structures (unequal strata incl. X=[0]*900+[1]*60+[2]*40, zipf, giant+singletons, all-distinct, '
        'constant, sparse codes) x r in {k/(n+1) grid, 1/n, 0.999, 0.5, 0.3, 0.1, 0.01, values making floor(r*n) hit every residue mod '
        '#values, quota 0/1 boundaries, quota above the smallest / every stratum}. Each case is executed in 6 fresh interpreters '
        '(MALLOC_PERTURB_ unset/1/85/170/255, NUMBA_BOUNDSCHECK=1) and in-process after 6 heap-grooming patterns. distinct = (joint '
        'structure, S=floor(r*n), quota, #strata below quota, S mod #values, flag); non-trivial = quota>0 and (some stratum is '
        'smaller than the quota or S is not a multiple of #values), i.e. the index buffer is only partly written.')
REQUIRED = {'bits-equal-across-processes': 200, 'groomed-heap-same-bits': 200, 'sample-model-score': 200, 'outside-sample-insensitive': 100,
            'sampled-rows-model': 50, 'finite': 200, 'near-self-pair-under-sampling': 50, 'ratio-forwarded': 100}
EXHAUSTIVE_NOTE = {'quick': 'all pairs of set partitions of n<=5 rows x r=k/(n+1), k=1..n, both flags',
                   'thorough': 'all pairs of set partitions of n<=6 rows x r=k/(n+1), k=1..n, both flags'}
ASSUMPTIONS = ['MALLOC_PERTURB_ reaches the JIT allocations (numba NRT allocates with malloc)', 'red-zone/poisoning tools cannot see in-bounds wrong reads: covered by the row model and the metamorphic monitor',
               'corrected scores of a sample are position dependent: the model accepts the sample ordered by value (as documented by the per-value prefix rule) or by row index',
               'pairs with Y identical to X are excluded from the outside-sample metamorphic monitor (the self-pair test reads whole vectors)']
WARM = [{}, {'NUMBA_BOUNDSCHECK': '1'}]
WARM_CODE = 'import outrank.algorithms.feature_ranking.ranking_mi_numba'

PERTURB = [None, 1, 85, 170, 255]


def plan(tier, seed):
    shards = []
    for p in PERTURB:
        spec = {'name': 'proc-perturb-%s' % ('unset' if p is None else p), 'fn': 'shard_bits', 'args': {}, 'death_is_violation': True}
        if p is not None:
            spec['env'] = {'MALLOC_PERTURB_': str(p)}
        shards.append(spec)
    shards.append({'name': 'proc-boundscheck', 'fn': 'shard_bits', 'args': {}, 'env': {'NUMBA_BOUNDSCHECK': '1'}, 'death_is_violation': True})
    k = 8 if tier == 'quick' else 10
    for i in range(k):
        shards.append({'name': 'model-%d' % i, 'fn': 'shard_model', 'args': {'part': i, 'parts': k}, 'death_is_violation': True})
    # the kernels run by the interpreter (JIT off): numpy's own bounds checks apply to every index, and the evidence lists the kernel lines executed
    shards.append({'name': 'model-interpreted', 'fn': 'shard_model', 'args': {'part': 1, 'parts': k}, 'env': {'NUMBA_DISABLE_JIT': '1'}, 'death_is_violation': True})
    for i in range(2 if tier == 'quick' else 4):
        shards.append({'name': 'dispatch-history-%d' % i, 'fn': 'shard_dispatch', 'args': {'part': i}})
    shards.append({'name': 'cli-ratio', 'fn': 'shard_cli', 'args': {}})
    if tier == 'thorough':
        shards.append({'name': 'valgrind', 'fn': 'shard_valgrind', 'args': {}, 'timeout': 5400})
    return shards


# ----------------------------------------------------------------------------------------------
def ratios_for(X, rng):
    import numpy as np
    n = len(X)
    m = len(set(X.tolist()))
    sizes = sorted(np.unique(X, return_counts=True)[1].tolist())
    rs = set()
    for k in rng.sample(range(1, n + 1), min(n, 3)):
        rs.add(k / (n + 1))
    rs.update([1.0 / n, 0.999, 0.5, 0.3, 0.1, 0.01])
    for S in {m - 1, m, m + 1, 2 * m - 1, 2 * m, 2 * m + 1, m * sizes[0], m * sizes[0] + 1, m * (sizes[0] + 1), m * sizes[-1] - 1, m * sizes[-1],
              m * (sizes[len(sizes) // 2] + 1) + rng.randrange(m)}:
        if 0 < S < n:
            rs.add((S + 0.5) / n)
    out = []
    for r in rs:
        r32 = float(np.float32(r))
        if 0.0 < r32 < 1.0:
            out.append(r32)
    return sorted(out)


def case_list(tier, seed):
    """Deterministic list of cases; identical in every shard/process of one run."""
    import random
    import numpy as np
    rng = random.Random(core.h64(('C04-cases', seed)))
    nprng = np.random.default_rng(int(core.h64(('C04-cases-np', seed)), 16))
    cases = []
    nmax = 5 if tier == 'quick' else 6
    for n in range(2, nmax + 1):
        P = [np.array(p, dtype=np.int32) for p in gen.rgs(n)]
        for y in P:
            for x in P:
                for k in range(1, n + 1):
                    cases.append((y, x, float(np.float32(k / (n + 1))), 'exhaustive-n%d' % n))
    # targeted unequal strata
    tgt = []
    for sizes in ([900, 60, 40], [500, 499, 1], [10, 10, 10, 1], [997, 1, 1, 1], [64, 32, 16, 8, 4, 2, 1, 1], [333, 333, 334], [3, 2], [7, 1], [50] * 20, [1] * 50 + [200]):
        X = np.concatenate([np.full(s, i, dtype=np.int32) for i, s in enumerate(sizes)])
        for variant in range(2):
            Xv = X.copy()
            if variant:
                nprng.shuffle(Xv)
            Y = nprng.integers(0, rng.choice([2, 5, 40]), len(Xv)).astype(np.int32)
            if rng.random() < 0.5:
                Y = ((Y + Xv) % 7).astype(np.int32)
            tgt.append((Y, Xv, 'targeted-strata'))
    reps = 2 if tier == 'quick' else 8
    for cls in gen.PAIR_CLASSES:
        for n in (2, 3, 7, 20, 64, 300, 1000):
            for _ in range(reps if n <= 300 else 1):
                Y, X = gen.random_pair(rng, nprng, cls, n)
                tgt.append((Y, X, cls))
    for Y, X, cls in tgt:
        for r in ratios_for(X, rng):
            cases.append((Y, X, r, cls))
    return cases


def _est():
    import numpy as np
    from outrank.algorithms.feature_ranking import ranking_mi_numba as m

    def est(Y, X, r, c):
        return m.mutual_info_estimator_numba(Y, X, np.float32(r), bool(c))
    return est, m


def _bits(v):
    import numpy as np
    return int(np.float32(v).view(np.uint32))


def shard_bits(sh):
    """Execute the whole case list in this (poisoned / bounds-checked) interpreter; record the float bits of every score."""
    import sys
    import numpy as np
    est, _ = _est()
    cases = case_list(sh.tier, sh.seed)
    bits = []
    for i, (Y, X, r, cls) in enumerate(cases):
        row = []
        for c in (False, True):
            sys.stdout.write('CASE %d flag=%s r=%r n=%d cls=%s\n' % (i, c, r, len(X), cls))
            sys.stdout.flush()
            ok, s = sh.call('finite', 'estimator', est, Y, X, r, c)
            if not ok:
                row.append(None)
                continue
            sh.check('finite', bool(np.isfinite(s)), 'non-finite-score', lambda: {'case': i, 'Y': Y[:200], 'X': X[:200], 'r': r, 'flag': c, 'score': float(s)})
            # immediate repetition in the same process
            s2 = est(Y, X, r, c)
            sh.check('finite', _bits(s) == _bits(s2), 'nondeterministic-in-process', lambda: {'case': i, 'Y': Y[:200], 'X': X[:200], 'r': r, 'flag': c, 'first': float(s), 'second': float(s2)})
            row.append(_bits(s))
        bits.append(row)
    sh.data['bits'] = bits
    sh.notes['cases'] = len(cases)
    sh.notes['env'] = {k: os.environ.get(k) for k in ('MALLOC_PERTURB_', 'NUMBA_BOUNDSCHECK')}


GROOM_PATTERNS = ['zeros', 'in-range', 'n', 'minus-one', 'huge', 'nan']


def groom(libc, nbytes, n, pattern, rng):
    """Leave freed heap blocks of (about) the index buffer's size filled with chosen float64 values."""
    import ctypes
    vals = {'zeros': 0.0, 'in-range': float(rng.randrange(max(1, n))), 'n': float(n), 'minus-one': -1.0, 'huge': 1e300, 'nan': float('nan')}[pattern]
    ptrs = []
    for extra in (0, 16, 32, 48, 64, 96, 128):
        size = nbytes + extra
        p = libc.malloc(size)
        if not p:
            continue
        cnt = size // 8
        arr = (ctypes.c_double * cnt).from_address(p)
        for j in range(cnt):
            arr[j] = vals if pattern != 'in-range' else float(rng.randrange(max(1, n)))
        ptrs.append(p)
    for p in ptrs:
        libc.free(p)


def structure_sig(Y, X, r, c):
    import numpy as np
    n = len(X)
    vals, cnt = np.unique(X, return_counts=True)
    S = int(float(np.float32(r)) * n)
    q = int(S / len(vals))
    below = int((cnt < q).sum()) if q else 0
    nontrivial = q > 0 and (below > 0 or S % len(vals) != 0)
    return (gen.joint_signature(Y, X), S, q, below, S % len(vals), c), nontrivial, (S, q, below)


def shard_model(sh, part, parts):
    """Model, metamorphic and grooming monitors on a slice of the case list (in-process)."""
    import ctypes
    import sys
    import numpy as np
    est, mod = _est()
    libc = ctypes.CDLL('libc.so.6')
    libc.malloc.restype = ctypes.c_void_p
    libc.malloc.argtypes = [ctypes.c_size_t]
    libc.free.argtypes = [ctypes.c_void_p]
    rng, nprng = sh.rng('model', part), sh.nprng('model', part)
    cases = case_list(sh.tier, sh.seed)
    mine = range(part, len(cases), parts)
    interpreted = os.environ.get('NUMBA_DISABLE_JIT') == '1'
    for t, i in enumerate(mine):
        Y, X, r, cls = cases[i]
        n = len(X)
        if interpreted and int(np.float32(r) * np.float32(n)) != int(float(np.float32(r)) * n):
            # floor(r*n) of a single-precision ratio: the compiled code multiplies in double precision, the interpreter (numpy scalar
            # rules) in single precision; where the two budgets differ the interpreted run is a different input, not a second opinion
            continue
        rows, S, q = oracles.subsample_model(X, r)
        sys.stdout.write('CASE %d r=%r n=%d cls=%s\n' % (i, r, n, cls))
        sys.stdout.flush()
        for c in (False, True):
            wit = lambda **kw: dict(kw, case=i, cls=cls, n=n, r=r, flag=c, S=S, quota=q, Y=Y[:300], X=X[:300])  # noqa: E731
            ok, s = sh.call('sample-model-score', 'estimator', est, Y, X, r, c)
            if not ok:
                continue
            s = float(s)
            # (1) documented rule, independent float64 formula
            model = oracles.subsampled_score_model(Y, X, r, c)
            good = oracles.close32(s, model)
            if not good and c and rows is not None and not np.array_equal(Y, X):
                # position-dependent corrected score: also accept the sample kept in row order
                ro = sorted(rows)
                alt = oracles.subsampled_score_model(Y, X, r, c, rows_override=ro)
                good = oracles.close32(s, alt)
            sh.check('sample-model-score', good, 'score!=sample-model', lambda: wit(got=s, model=model))
            # (2) grooming: same bits whatever earlier allocations left in freed memory
            if t % 3 == 0 or cls == 'targeted-strata':
                for pat in GROOM_PATTERNS:
                    groom(libc, max(8, S * 8), n, pat, rng)
                    ok2, s2 = sh.call('groomed-heap-same-bits', 'estimator', est, Y, X, r, c)
                    if ok2:
                        sh.check('groomed-heap-same-bits', _bits(s2) == _bits(s), 'score-depends-on-heap-history',
                                 lambda: wit(pattern=pat, first=s, after_grooming=float(s2)))
            # (3) metamorphic: feature values outside the sample are never read
            if rows is not None and len(rows) < n and not np.array_equal(Y, X):
                outside = np.setdiff1d(np.arange(n), np.array(rows))
                Y2 = Y.copy()
                Y2[outside] = nprng.integers(0, int(Y.max()) + 3, len(outside)).astype(np.int32)
                if not np.array_equal(Y2, X):
                    ok3, s3 = sh.call('outside-sample-insensitive', 'estimator', est, Y2, X, r, c)
                    if ok3:
                        sh.check('outside-sample-insensitive', _bits(s3) == _bits(s), 'reads-outside-sample',
                                 lambda: wit(altered_rows=outside[:50], first=s, after=float(s3), Y_altered=Y2[:300]))
            sig, nontrivial, (S_, q_, below) = structure_sig(Y, X, r, c)
            sh.case(sig, nontrivial, cls + ('/partly-written-buffer' if nontrivial else '/full-or-no-sampling'),
                    sample={'Y': Y[:20], 'X': X[:20], 'n': n, 'r': r, 'flag': c, 'S': S, 'quota': q, 'strata_below_quota': below, 'score': s, 'model': model} if t % 500 == 0 and c else None)
        # (3b) a feature that equals the target on every sampled row but differs elsewhere is NOT the self pair
        if rows is not None and len(rows) < n and t % 2 == 1:
            outside = np.setdiff1d(np.arange(n), np.array(rows))
            Yn = X.copy()
            k = max(1, len(outside) // 3)
            pick = outside[nprng.choice(len(outside), k, replace=False)]
            Yn[pick] = (X[pick] + 1 + nprng.integers(0, 3, k)).astype(np.int32)
            ok4, s4 = sh.call('near-self-pair-under-sampling', 'estimator', est, Yn, X, r, True)
            if ok4:
                m4 = oracles.subsampled_score_model(Yn, X, r, True)
                alt = oracles.subsampled_score_model(Yn, X, r, True, rows_override=sorted(rows))
                sh.check('near-self-pair-under-sampling', oracles.close32(float(s4), m4) or oracles.close32(float(s4), alt), 'self-pair-rule-applied-to-non-identical-vectors',
                         lambda: {'case': i, 'n': n, 'r': r, 'X': X[:300], 'Y': Yn[:300], 'rows_differing': pick[:40], 'got': float(s4), 'model_corrected': m4,
                                  'model_if_treated_as_self_pair': oracles.subsampled_score_model(Yn, X, r, False)})
        # (4) the sampled rows themselves (module-level sampler): identify rows by giving every row a unique feature value
        if rows is not None and t % 2 == 0:
            ids = np.arange(n, dtype=np.int32)
            fvals = np.unique(X).astype(np.int32)
            ok, res = sh.call('sampled-rows-model', 'stratified_subsampling', mod.stratified_subsampling, ids, X, np.float32(r), fvals)
            if ok:
                Ys, Xs = res
                sel = [int(v) for v in Ys]
                sh.check('sampled-rows-model', sorted(sel) == sorted(rows) and all(0 <= a < n for a in sel) and [int(v) for v in Xs] == [int(X[a]) for a in sel],
                         'sampled-rows!=first-q-per-value', lambda: {'case': i, 'n': n, 'r': r, 'S': S, 'quota': q, 'X': X[:300], 'sampled_rows': sel[:300], 'model_rows': rows[:300]})
    sh.notes['cases_total'] = len(cases)


def shard_dispatch(sh, part):
    """The ratio as the CLI forwards it (importance_estimator.numba_mi / conduct_feature_ranking): freshly allocated vectors of
    equal size are created and freed in a loop (allocator history), each result must be the bits of the direct estimator call."""
    import types
    import numpy as np
    from outrank.algorithms import importance_estimator as ie
    est, _ = _est()
    rng, nprng = sh.rng('disp', part), sh.nprng('disp', part)
    reps = 400 if sh.tier == 'quick' else 2000
    n = rng.choice([40, 300])
    for t in range(reps):
        if t % 50 == 0:
            n = rng.choice([40, 300, 800])
        r = float(np.float32(rng.choice([0.3, 0.5, 0.7, 0.9, 1.0])))
        heuristic = rng.choice(['MI-numba-randomized', 'MI-numba-3mr'])
        dtype = rng.choice([np.int8, np.int16, np.int64])
        a = nprng.integers(0, rng.choice([2, 5, 40]), n).astype(dtype)       # new buffers every round, same size as the previous ones
        b = nprng.integers(0, rng.choice([2, 3, 7]), n).astype(dtype)
        if rng.random() < 0.3:
            a = ((a.astype(np.int64) + b) % 5).astype(dtype)
        # the ratio in the forms callers use: Python float (CLI), numpy scalars (tests, docs), decimal text
        r_form = rng.choice([r, r, np.float32(r), np.float64(r), repr(r)])
        args = types.SimpleNamespace(heuristic=heuristic, mi_stratified_sampling_ratio=r_form)
        ok, got = sh.call('ratio-forwarded', 'conduct_feature_ranking', ie.conduct_feature_ranking, a, b, args)
        if not ok:
            continue
        exp = est(np.ascontiguousarray(a, dtype=np.int32), np.ascontiguousarray(b, dtype=np.int32), r, heuristic == 'MI-numba-randomized')
        sh.check('ratio-forwarded', _bits(got) == _bits(exp), 'dispatched-score!=estimator(these vectors, this ratio)',
                 lambda: {'round': t, 'n': n, 'ratio': r, 'heuristic': heuristic, 'dtype': str(np.dtype(dtype)), 'got': float(got), 'direct': float(exp), 'a': a[:100], 'b': b[:100]})
        if rng.random() < 0.3:      # in-place modification between calls
            a[: n // 2] = 0
            ok, got = sh.call('ratio-forwarded', 'conduct_feature_ranking', ie.conduct_feature_ranking, a, b, args)
            if ok:
                exp = est(np.ascontiguousarray(a, dtype=np.int32), np.ascontiguousarray(b, dtype=np.int32), r, heuristic == 'MI-numba-randomized')
                sh.check('ratio-forwarded', _bits(got) == _bits(exp), 'dispatched-score!=estimator(these vectors, this ratio)', lambda: {'round': t, 'after_in_place_edit': True, 'got': float(got), 'direct': float(exp)})
        del a, b
    sh.case(('dispatch-history', part), True, 'dispatch-history', sample={'rounds': reps})
    # the batch stage with a ratio < 1: the label is the conditioning side for every heuristic and every column name
    import pandas as pd
    from vf import pipe
    cr = pipe.fresh_core_ranking()
    for t in range(6 if sh.tier == 'quick' else 30):
        n = rng.choice([600, 3000])
        lab = nprng.integers(0, 3, n)
        names = rng.sample(['zone', 'campaign', 'a_first', 'zz_last', 'm', 'label2'], 3)
        cols = {}
        for j, nm in enumerate(names):
            v = nprng.integers(0, rng.choice([4, 9, 60]), n)
            cols[nm] = np.where(nprng.random(n) < 0.4, lab + 1, v)
        cols['label'] = lab
        order = list(cols)
        rng.shuffle(order)
        df = pd.DataFrame({c: ['v%d' % x for x in cols[c]] for c in order})
        codes = {c: np.array(pipe.codes_sorted(df[c].tolist()), dtype=np.int32) for c in order}
        for heuristic in ('MI-numba-3mr', 'MI-numba-randomized'):
            r = float(np.float32(rng.choice([0.3, 0.5, 0.8])))
            a_ = pipe.make_args(heuristic=heuristic, target_ranking_only='True', mi_stratified_sampling_ratio=r, combination_number_upper_bound=10 ** 6)
            ok, out = sh.call('ratio-forwarded', 'mixed_rank_graph', cr.mixed_rank_graph, df, a_, pipe.SyncPool(), pipe.NullPbar())
            if not ok:
                continue
            got = {(x, y): float(s_) for x, y, s_ in out.triplet_scores}
            for c in names:
                exp = float(est(codes[c], codes['label'], r, heuristic == 'MI-numba-randomized'))
                g = got.get((c, 'label'), got.get(('label', c)))
                sh.check('ratio-forwarded', g is not None and _bits(g) == _bits(exp), 'batch-score!=estimator(feature | label, ratio)',
                         lambda: {'heuristic': heuristic, 'ratio': r, 'feature': c, 'columns': order, 'got': g, 'expected': exp, 'with_sides_swapped': float(est(codes['label'], codes[c], r, heuristic == 'MI-numba-randomized'))})
        sh.case(('batch-ratio', part, t), True, 'batch-stage-with-ratio<1')


def shard_cli(sh):
    """--mi_stratified_sampling_ratio through the command-line entry point: the scores written by the ranking task must be the
    estimator's scores at exactly that ratio (also for very small ratios), on the category codes of the columns."""
    import csv
    import numpy as np
    import outrank.task_ranking as tr
    from vf import pipe
    est, _ = _est()
    rng, nprng = sh.rng('cli'), sh.nprng('cli')
    ratios = [0.5, 0.005, 0.3, 0.0125, 0.99] if sh.tier == 'quick' else [0.5, 0.005, 0.3, 0.0125, 0.99, 0.001, 0.75, 0.0099]
    n = 4000
    lab = nprng.integers(0, 3, n)
    cols = {'f_strong': np.where(nprng.random(n) < 0.1, nprng.integers(0, 3, n), lab), 'f_noise': nprng.integers(0, 7, n), 'f_id': nprng.permutation(n) % 900, 'label': lab}
    header = list(cols)
    rows = [['v%d' % cols[c][i] for c in header] for i in range(n)]
    dpath = os.path.join(sh.scratch, 'data')
    os.makedirs(dpath, exist_ok=True)
    pipe.write_csv(os.path.join(dpath, 'data.csv'), header, rows)
    codes = {c: np.array(pipe.codes_sorted([r[j] for r in rows]), dtype=np.int32) for j, c in enumerate(header)}
    for r in ratios:
        cr = pipe.fresh_core_ranking()
        tr.Pool = lambda *a_, **k_: pipe.SyncPool()
        tr.estimate_importances_minibatches = cr.estimate_importances_minibatches
        out_dir = os.path.join(sh.scratch, 'out-%s' % r)
        flags = {'task': 'ranking', 'data_path': dpath, 'data_source': 'csv-raw', 'output_folder': out_dir, 'subsampling': 1, 'heuristic': 'MI-numba-randomized',
                 'target_ranking_only': 'True', 'include_cardinality_in_feature_names': 'False', 'disable_tqdm': 'True', 'num_threads': 1, 'mi_stratified_sampling_ratio': r}
        ok, _ = sh.call('ratio-forwarded', 'outrank.__main__.main', pipe.run_cli, flags)
        if not ok:
            continue
        got = {}
        with open(os.path.join(out_dir, 'pairwise_ranks.tsv'), newline='') as f:
            rd = csv.reader(f, delimiter='\t')
            hdr = next(rd)
            for row in rd:
                got[(row[0], row[1])] = float(row[2])
        for c in header:
            exp = float(est(codes[c], codes['label'], r, True))
            g = got.get((c, 'label'))
            sh.check('ratio-forwarded', g is not None and _bits(g) == _bits(exp), 'cli-score!=estimator-at-the-requested-ratio',
                     lambda: {'ratio': r, 'feature': c, 'written': g, 'estimator_at_ratio': exp, 'estimator_at_1.0': float(est(codes[c], codes['label'], 1.0, True))})
        sh.case(('cli-ratio', r), True, 'cli-ratio', sample={'ratio': r, 'scores': {k[0]: v for k, v in got.items() if k[1] == 'label'}})


def shard_valgrind(sh):
    """Thorough tier: valgrind memcheck over a batch of partly-written-buffer cases; count reports after the workload marker."""
    import re
    import subprocess
    import sys
    log = os.path.join(sh.scratch, 'valgrind.log')
    out = os.path.join(sh.scratch, 'valgrind.out')
    env = dict(os.environ)
    env['NUMBA_CACHE_DIR'] = os.path.join(os.environ['VF_SCRATCH'], 'nc')  # compiled by the warm-up: valgrind then loads cached code
    env['VF_VALGRIND_CASES'] = '300'
    # valgrind 3.19 aborts (VEX temporary storage exhausted) on NumPy's AVX2/AVX512 sort kernels, which the harness itself uses
    # while building the case list: restrict NumPy to its baseline SIMD paths inside this child
    env['NPY_DISABLE_CPU_FEATURES'] = 'AVX512F AVX512CD AVX512_SKX AVX512_CLX AVX512_CNL AVX512_ICL AVX512_SPR AVX2 FMA3'
    env['VF_VALGRIND_LOG'] = log
    # the case list is prepared here (outside valgrind) and handed over as plain JSON
    import json
    want = int(env['VF_VALGRIND_CASES'])
    cases = [c for c in case_list('quick', sh.seed) if structure_sig(c[0], c[1], c[2], False)[1] and len(c[1]) >= 20]
    cases = cases[::max(1, len(cases) // want)][:want + 20]
    casefile = os.path.join(sh.scratch, 'valgrind-cases.json')
    with open(casefile, 'w') as f:
        json.dump([[c[0].tolist(), c[1].tolist(), c[2]] for c in cases], f)
    env['VF_VALGRIND_CASEFILE'] = casefile
    cmd = ['valgrind', '--tool=memcheck', '--error-exitcode=0', '--log-file=' + log, '--num-callers=12', '--undef-value-errors=yes',
           core.PY, '-c', 'from vf.checks import c04; c04.valgrind_child()']
    try:
        with open(out, 'wb') as f:
            p = subprocess.run(cmd, env=env, stdout=f, stderr=subprocess.STDOUT, timeout=4800, cwd=core.VERIF)
    except subprocess.TimeoutExpired:
        sh.inconclusive_note('valgrind run timed out')
        return
    except FileNotFoundError:
        sh.inconclusive_note('valgrind not installed')
        return
    text = open(log, errors='replace').read()
    outtxt = open(out, errors='replace').read()
    if 'VERIF-WORKLOAD-BEGIN' not in outtxt or 'VERIF-WORKLOAD-END' not in outtxt:
        if "the 'impossible' happened" in text or 'VEX temporary storage exhausted' in text or 'valgrind: Fatal' in text:
            # the tool itself failed: no verdict on the product from this sanitizer (the others are unaffected)
            sh.classes['valgrind tool failure: no verdict from this sanitizer'] += 1
            sh.notes['valgrind'] = {'tool_failure': True, 'log_tail': text[-600:]}
            return
        if p.returncode != 0:
            sh.fail('valgrind', 'abnormal-termination-under-valgrind', {'returncode': p.returncode, 'out_tail': outtxt[-800:], 'log_tail': text[-1500:]})
        else:
            sh.inconclusive_note('valgrind child did not print workload markers: ' + outtxt[-500:])
        return
    # the child writes a marker line into the valgrind log through a client request substitute: it records the number of
    # error contexts seen before the workload (loader noise) by printing the current log size.
    m = re.search(r'VERIF-LOG-OFFSET (\d+)', outtxt)
    offset = int(m.group(1)) if m else 0
    after = text[offset:]
    reports = re.findall(r'==\d+== (Invalid read|Invalid write|Use of uninitialised value|Conditional jump or move depends on uninitialised|Invalid free|Mismatched free)[^\n]*', after)
    n_cases = int(re.search(r'VERIF-CASES (\d+)', outtxt).group(1))
    sh.notes['valgrind'] = {'cases': n_cases, 'reports_after_marker': len(reports), 'log_bytes_before_marker': offset}
    sh.check('valgrind', len(reports) == 0, 'valgrind-report-in-workload', lambda: {'reports': reports[:10], 'excerpt': after[:3000]})
    for _ in range(n_cases):
        sh.ok('valgrind')
    sh.case(('valgrind-batch', n_cases), True, 'valgrind')


def valgrind_child():
    """Runs under valgrind: imports, loads the prepared cases (no NumPy sorting in here: valgrind 3.19 cannot translate NumPy's
    AVX2 sort kernels), marks the workload and executes the cases."""
    import json
    import sys
    import numpy as np
    est, _ = _est()
    with open(os.environ['VF_VALGRIND_CASEFILE']) as f:
        raw = json.load(f)
    cases = [(np.array(y, dtype=np.int32), np.array(x, dtype=np.int32), r) for y, x, r in raw]
    off = os.path.getsize(os.environ['VF_VALGRIND_LOG']) if os.path.exists(os.environ.get('VF_VALGRIND_LOG', '')) else 0
    print('VERIF-LOG-OFFSET %d' % off)
    print('VERIF-WORKLOAD-BEGIN')
    sys.stdout.flush()
    for Y, X, r in cases:
        for c in (False, True):
            est(Y, X, r, c)
    print('VERIF-CASES %d' % len(cases))
    print('VERIF-WORKLOAD-END')
    sys.stdout.flush()


# ----------------------------------------------------------------------------------------------
def post(merged, tier, seed):
    """Cross-process oracle: every execution of a case returned the same float bits."""
    data = merged['data']
    procs = {k: v['bits'] for k, v in data.items() if 'bits' in v}
    if len(procs) < 2:
        merged['inconclusive'].append('fewer than 2 interpreters completed the case list')
        return
    names = sorted(procs)
    ref_name = names[0]
    ref = procs[ref_name]
    cases = None
    for name in names[1:]:
        other = procs[name]
        if len(other) != len(ref):
            merged['inconclusive'].append('case lists differ between interpreters (%d vs %d)' % (len(ref), len(other)))
            return
        for i, (a, b) in enumerate(zip(ref, other)):
            for f in (0, 1):
                if a[f] is None or b[f] is None:
                    continue
                if a[f] == b[f]:
                    core.post_ok(merged, 'bits-equal-across-processes')
                else:
                    if cases is None:
                        cases = case_list(tier, seed)
                    Y, X, r, cls = cases[i]
                    core.post_fail(merged, 'bits-equal-across-processes', 'score-differs-between-processes', name,
                                   {'case': i, 'flag': bool(f), 'r': r, 'cls': cls, 'Y': Y[:300], 'X': X[:300],
                                    ref_name: a[f], name: b[f]})
    merged['notes']['interpreters_compared'] = names
