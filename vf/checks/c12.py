"""C12 - transformations compute what their names say; degenerate ones are dropped; preset lists select the union.

Reference-model monitor: the oracle derives every formula from the transformer *name* (table for the default/minimal names,
parser for the fw family) and evaluates it with scalar Python arithmetic; names per preset are read from the vault at run time.
"""
from __future__ import annotations

import itertools
import math
import re

from vf import core, gen, pipe

PROPERTY = 'C12'
RULE = ('cases = (numeric string column, transformer name): columns of numeric strings (negatives, zeros, exact fw thresholds, values just '
        'around them, huge 1e300, tiny, quoted numbers, empty strings = 0, integer counts, probabilities on a 0.01 grid, constant and '
        'two-valued columns, columns whose most frequent value covers exactly 80% / just below, NaN-producing shares at exactly 75%) x '
        'every transformer of the minimal / default / fw-transformers presets, through FeatureTransformerGeneric.construct_new_features and through core_ranking.enrich_with_transformations (the pipeline path); '
        'plus every ordered pair and triple of preset names (and repeated constructions in one process) for the union clause. distinct = '
        '(transformer name, column class, column hash); non-trivial = the column was emitted, or dropped by a rule clause other than '
        '"constant".')
REQUIRED = {'emitted-cell=named-formula': 500, 'emitted-only-if-rule': 200, 'dropped-only-if-rule-fails': 200, 'preset-union': 20, 'fw-names-recognised': 1}
ASSUMPTIONS = ['inputs parse to floats; literals overflowing to +-inf are fed, NaN literals are not', 'rounding is IEEE half-even; for the log-based transformers a cell one unit off at a .5 boundary is skipped (1-ulp differences between log implementations); sqrt-based and division-based ties are exact',
               'for dropped candidates the keep rule is evaluated on the oracle column and borderline cases (decision flips when values closer than 1e-12 are merged, or +-0.0 both present) are skipped',
               'the asinh-style formula is not compared for x < -1e6 (catastrophic cancellation makes the naive formula itself rounding-dominated)']
WARM = [{}]
WARM_CODE = 'import outrank.core_ranking'

NAN = float('nan')
INF = float('inf')


def _log(v):
    if v != v:
        return NAN
    if v > 0:
        return math.log(v) if v != INF else INF
    if v == 0:
        return -INF
    return NAN


def _sqrt(v):
    if v != v or v < 0:
        return NAN
    return math.sqrt(v) if v != INF else INF


def _round(v):
    if v != v or v in (INF, -INF):
        return v
    return float(round(v))


def _mul(a, b):
    return a * b


def _div(a, b):
    if a != a or b != b:
        return NAN
    if b == 0:
        if a == 0:
            return NAN
        return math.copysign(INF, a) * (math.copysign(1.0, b))
    return a / b


def near_half(v):
    return v == v and abs(v) != INF and abs((abs(v) % 1.0) - 0.5) < 1e-9


def named_formula(name):
    """name -> (scalar function f(x, ctx), needs_context) or None when the name is not recognised."""
    table = {
        '_tr_sqrt': lambda x, c: _sqrt(x),
        '_tr_log(x+1)': lambda x, c: _log(x + 1),
        '_tr_sqrt(abs(x))': lambda x, c: _sqrt(abs(x)),
        '_tr_log(abs(x)+1)': lambda x, c: _log(abs(x) + 1),
        '_tr_div(x,abs(x))*log(abs(x))': lambda x, c: _mul(_div(x, abs(x)), _log(abs(x))),
        '_tr_log(x + sqrt(pow(x,2), 1)': lambda x, c: _log(x + _sqrt(_sq(x) + 1)),
        '_tr_log*sqrt': lambda x, c: _mul(_log(x + 1), _sqrt(x)),
        '_tr_log*100': lambda x, c: _round(_mul(_log(x + 1), 100)),
        '_tr_nonzero': lambda x, c: 1.0 if x != 0 else 0.0,
        '_tr_round(div(x,max))': lambda x, c: _round(_div(x, c['max'])),
    }
    if name in table:
        return table[name]
    m = re.fullmatch(r'_tr_fw_(prob_)?(sqrt|log)_res_([0-9.eE+-]+)_gt_([0-9.eE+-]+)', name)
    if m:
        res, gt = float(m.group(3)), float(m.group(4))
        inner = _sqrt if m.group(2) == 'sqrt' else _log

        def f(x, c, res=res, gt=gt, inner=inner):
            if x < gt:
                return x
            if x > gt:
                return _round(_mul(inner(x - gt), res))
            return 0.0
        return f
    return None


def _sq(x):
    try:
        return x * x
    except OverflowError:
        return INF


def plan(tier, seed):
    shards = []
    k = 8 if tier == 'quick' else 14
    for i in range(k):
        shards.append({'name': 'columns-%d' % i, 'fn': 'shard_columns', 'args': {'part': i, 'parts': k}})
    shards.append({'name': 'presets', 'fn': 'shard_presets', 'args': {}})
    return shards


def fmt(v, rng):
    """Render a float as an input cell (sometimes quoted, integers without a fraction)."""
    if v == int(v) and abs(v) < 1e15 and rng.random() < 0.7:
        s = str(int(v))
    else:
        s = repr(float(v))
    if rng.random() < 0.1:
        s = '"%s"' % s
    return s


def column_classes(rng, nprng, thresholds):
    """Yield (class name, list of cells)."""
    n = rng.choice([5, 10, 20, 100])
    th = rng.choice(thresholds)
    yield 'integers-small', [fmt(float(v), rng) for v in nprng.integers(0, 12, n)]
    yield 'integer-counts-on-thresholds', [fmt(float(rng.choice([0, 1, 2, 4, 8, 16, 32, 64, 96, 3, 5, 97, 100, 1000])), rng) for _ in range(n)]
    yield 'probabilities-0.01-grid', [repr(rng.choice([0.0, 0.01, 0.02, 0.04, 0.08, 0.16, 0.32, 0.64, 0.96, 0.5, 0.99, 1.0, 0.005, 0.03])) for _ in range(n)]
    yield 'around-threshold', [repr(rng.choice([th, th - 1e-9, th + 1e-9, th * 2, th / 2, th + 1, th - 1 if th > 1 else 0.0, th + 0.5, th + 100.0])) for _ in range(n)]
    yield 'negatives-and-zeros', [fmt(float(rng.choice([-5, -1, -0.5, 0, 0, 1, 2.5, -100, 7])), rng) for _ in range(n)]
    yield 'with-empties', [rng.choice(['', '', '1', '2', '3.5', '10', '0']) for _ in range(n)]
    yield 'huge-and-tiny', [repr(rng.choice([1e300, 1e-300, 1e150, 1.0, 0.0, 12345.678, 1e-9, 2e9])) for _ in range(n)]
    yield 'continuous', [repr(float(v)) for v in nprng.random(n) * rng.choice([1, 10, 1000])]
    yield 'constant', [fmt(float(rng.choice([0, 1, 7, -2])), rng)] * n
    a, b = rng.sample([0.0, 1.0, 2.0, 50.0, -3.0, 200.0], 2)
    k = rng.choice([int(n * 0.8), int(n * 0.8) - 1, int(n * 0.8) + 1, n // 2])
    k = max(1, min(n - 1, k))
    col = [fmt(a, rng) if False else repr(a)] * k + [repr(b)] * (n - k)
    rng.shuffle(col)
    yield 'two-valued-%s80pct' % ('exact-' if k == int(n * 0.8) else 'near-'), col
    # NaN-producing share exactly / around 75% (sqrt and log(x+1) of negatives < -1 are NaN)
    k = rng.choice([int(n * 0.75), int(n * 0.75) - 1, int(n * 0.75) + 1])
    k = max(1, min(n - 1, k))
    col = [repr(float(-2 - i % 3)) for i in range(k)] + [repr(float(1 + i)) for i in range(n - k)]
    rng.shuffle(col)
    yield 'nan-share-%s75pct' % ('exact-' if k == int(n * 0.75) else 'near-'), col
    yield 'overflowing-literals', [rng.choice(['1e999', '-1e400', '1e999', '5', '7', '0', '12.5']) for _ in range(n)]
    yield 'quarter-offsets-from-threshold', [repr(th + rng.choice([0.25, 6.25, 20.25, 2.25, 0.0625, 1.5625, 0.5625, 12.25, 1.0, 3.0])) for _ in range(n)]
    # shares that sit just below a threshold but round to it at two decimals (35/44 = 0.7955, 39/49 = 0.7959, 159/200 = 0.795; NaN 38/51 = 0.7451)
    nn, kk = rng.choice([(44, 35), (49, 39), (200, 159), (88, 70)])
    yield 'majority-just-below-80pct-fine-grid', [repr(3.0)] * kk + [repr(float(10 + i)) for i in range(nn - kk)]
    nn, kk = rng.choice([(51, 38), (102, 76), (200, 149)])
    yield 'nan-share-just-below-75pct-fine-grid', [repr(float(-2 - i % 3)) for i in range(kk)] + [repr(float(1 + i)) for i in range(nn - kk)]
    yield 'majority-80pct-of-many', [repr(3.0)] * int(n * 0.8) + [repr(float(10 + i)) for i in range(n - int(n * 0.8))]
    yield 'majority-just-below-80pct', [repr(3.0)] * (int(n * 0.8) - 1) + [repr(float(10 + i)) for i in range(n - int(n * 0.8) + 1)]


def parse_cell(s):
    s = str(s).replace('"', '')
    return 0.0 if len(s) == 0 else float(s)


def canon(v, merge):
    if v != v:
        return 'nan'
    if v == 0:
        v = 0.0
    if merge and v not in (INF, -INF):
        return '%.11e' % v
    return repr(float(v))


def rule_on(values, merge):
    from collections import Counter
    keys = [canon(v, merge) for v in values]
    cnt = Counter(keys)
    n = len(values)
    return len(cnt) > 1 and max(cnt.values()) / n < 0.80 and cnt.get('nan', 0) / n < 0.75, (len(cnt), max(cnt.values()) / n, cnt.get('nan', 0) / n)


def verify_column(sh, out, colname, cells, collection_names, cls, counters):
    """Compare everything the transformer object emitted / dropped for one numeric column."""
    from collections import Counter
    xs = [parse_cell(c) for c in cells]
    ctx = {'max': max(xs)}
    n = len(xs)
    for tname in collection_names:
        f = named_formula(tname)
        if f is None:
            counters['unrecognised'] += 1
            continue
        counters['recognised'] += 1
        feature = colname + tname
        exp = []
        for x in xs:
            try:
                exp.append(f(x, ctx))
            except OverflowError:
                exp.append(INF)
        wit = lambda **kw: dict(kw, transformer=tname, column_class=cls, input_cells=cells[:40], expected=[repr(v) for v in exp[:40]])  # noqa: E731
        emitted = feature in out.columns
        nontrivial = False
        if emitted:
            got = out[feature].tolist()
            bad = None
            skipped = 0
            for i, (g, e) in enumerate(zip(got, exp)):
                try:
                    gv = float(g)
                except ValueError:
                    bad = (i, g, e)
                    break
                if tname.startswith('_tr_log(x + sqrt') and xs[i] < -1e6:
                    skipped += 1
                    continue
                if gv != gv and e != e:
                    continue
                if gv == e:
                    continue
                if gv == gv and e == e and abs(gv - e) <= 1e-12 + 1e-9 * abs(e):
                    continue
                if ('*100' in tname or '_log_' in tname) and gv == gv and e == e and abs(gv - e) <= 1.0 + 1e-9:
                    # half-way rounding of a value computed with 1-ulp differences between log implementations (sqrt and division are
                    # correctly rounded everywhere, so rounding ties of the sqrt family and of round(div) are compared exactly)
                    skipped += 1
                    continue
                bad = (i, g, repr(e), cells[i])
                break
            sh.check('emitted-cell=named-formula', bad is None and len(got) == n, 'emitted-cell!=named-formula', lambda: wit(first_bad_cell=bad, got=got[:40]))
            # "only if": the emitted column itself satisfies the keep rule (on its own text, as written)
            cnt = Counter(got)
            ok_rule = len(cnt) > 1 and max(cnt.values()) / n < 0.80 and sum(1 for g in got if g == 'nan') / n < 0.75
            sh.check('emitted-only-if-rule', ok_rule, 'degenerate-column-emitted', lambda: wit(got=got[:40], distinct=len(cnt), max_share=max(cnt.values()) / n))
            nontrivial = True
        else:
            keep_exact, stats = rule_on(exp, False)
            keep_merged, _ = rule_on(exp, True)
            has_pm_zero = any(v == 0 and math.copysign(1, v) < 0 for v in exp if v == v) and any(v == 0 and math.copysign(1, v) > 0 for v in exp if v == v)
            if keep_exact != keep_merged or has_pm_zero or (tname.startswith('_tr_log(x + sqrt') and min(xs) < -1e6) or any(near_half(v) for v in exp if 'round' in tname):
                counters['borderline-skipped'] += 1
            else:
                sh.check('dropped-only-if-rule-fails', not keep_exact, 'non-degenerate-column-dropped', lambda: wit(stats=stats))
            nontrivial = stats[0] > 1
        sh.case((tname, cls, core.h64(cells)), nontrivial, cls)


def shard_columns(sh, part, parts):
    import pandas as pd
    import outrank.feature_transformations.feature_transformer_vault as vault
    from outrank.feature_transformations.ranking_transformers import FeatureTransformerGeneric
    pipe.quiet()
    cr = pipe.fresh_core_ranking()
    from collections import Counter
    counters = Counter()
    rng, nprng = sh.rng('cols', part), sh.nprng('cols', part)
    thresholds = [1, 2, 4, 8, 16, 32, 64, 96, 0.01, 0.02, 0.04, 0.08, 0.16, 0.32, 0.64, 0.96]
    reps = 6 if sh.tier == 'quick' else 150
    presets = ['fw-transformers', 'default', 'minimal', 'minimal,default', 'default,fw-transformers']
    shared_numeric = {'x'}
    t = 0
    for rep in range(reps):
        classes = list(column_classes(rng, nprng, thresholds))
        for cls, cells in classes:
            t += 1
            preset = presets[0] if t % 3 else rng.choice(presets)
            names = set()
            for p in preset.split(','):
                names.update(vault._tr_global_namespace[p].keys())
            other = [str(v) for v in nprng.integers(0, 9, len(cells))]
            df = pd.DataFrame({'x': cells, 'other': other, 'label': ['a'] * len(cells)})
            snapshot = df.copy(deep=True)
            if t % 4 == 2:
                # the path the pipeline takes: core_ranking.enrich_with_transformations(frame, numeric columns, logger, args); the pipeline hands
                # the SAME set of numeric column names to every batch, so it must come back unchanged
                ok, out = sh.call('emitted-cell=named-formula', 'enrich_with_transformations', cr.enrich_with_transformations, df, shared_numeric, pipe.ListLogger(), pipe.make_args(transformers=preset))
                sh.check('emitted-only-if-rule', shared_numeric == {'x'}, 'numeric-column-set-of-the-caller-modified', lambda: {'set_now': sorted(shared_numeric), 'after_class': cls})
                shared_numeric.clear()
                shared_numeric.add('x')
                sh.classes['via enrich_with_transformations'] += 1
                if not ok:
                    continue
            else:
                ok, tr = sh.call('emitted-cell=named-formula', 'FeatureTransformerGeneric', FeatureTransformerGeneric, {'x'}, preset)
                if not ok:
                    continue
                ok, out = sh.call('emitted-cell=named-formula', 'construct_new_features', tr.construct_new_features, df)
                if not ok:
                    continue
            sh.check('emitted-only-if-rule', list(out.columns[:3]) == ['x', 'other', 'label'] and out[['x', 'other', 'label']].equals(snapshot), 'input-columns-changed',
                     lambda: {'columns': list(out.columns)[:8]})
            extra = [c for c in out.columns[3:] if not (c.startswith('x') and c[1:] in names)]
            sh.check('emitted-only-if-rule', not extra, 'column-emitted-for-unknown-transformer-or-feature', lambda: {'extra': extra[:5], 'preset': preset})
            verify_column(sh, out, 'x', cells, sorted(names), cls, counters)
            if t % 25 == 1:
                sh.samples.append({'class': cls, 'cells': cells[:8], 'preset': preset, 'emitted': [c for c in out.columns[3:]][:6], 'first_emitted_values': out[out.columns[3]].tolist()[:5] if out.shape[1] > 3 else None})
    sh.notes['counters'] = dict(counters)
    fw = [nme for nme in vault._tr_global_namespace['fw-transformers'] if named_formula(nme) is not None]
    sh.notes['fw_recognised'] = len(fw)
    if len(fw) >= 138:
        sh.ok('fw-names-recognised')
    else:
        sh.inconclusive_note('only %d of the fw preset names are recognised by the name parser (< 138)' % len(fw))


def shard_presets(sh):
    import outrank.feature_transformations.feature_transformer_vault as vault
    from outrank.feature_transformations.ranking_transformers import FeatureTransformerGeneric
    pipe.quiet()
    names = sorted(vault._tr_global_namespace)
    pristine = {k: dict(v) for k, v in vault._tr_global_namespace.items()}
    rng = sh.rng('presets')
    combos = [(a,) for a in names] + list(itertools.permutations(names, 2)) + (list(itertools.permutations(names, 3)) if sh.tier == 'thorough' else rng.sample(list(itertools.permutations(names, 3)), 40))
    combos += [(a, a) for a in names]
    rng.shuffle(combos)
    for t, combo in enumerate(combos):
        preset = ','.join(combo)
        ok, tr = sh.call('preset-union', 'FeatureTransformerGeneric', FeatureTransformerGeneric, {'x'}, preset)
        if not ok:
            continue
        exp = {}
        for p in combo:
            exp.update(pristine[p])
        got = dict(tr.transformer_collection)
        sh.check('preset-union', got == exp, 'preset-list!=union-of-presets',
                 lambda: {'preset': preset, 'size': len(got), 'expected_size': len(exp), 'missing': sorted(set(exp) - set(got))[:5], 'extra': sorted(set(got) - set(exp))[:5]})
        # constructing one object must not change what a later construction selects (history independence)
        still = {k: dict(v) for k, v in vault._tr_global_namespace.items()}
        sh.check('preset-union', still == pristine, 'vault-presets-mutated-by-construction',
                 lambda: {'after_preset': preset, 'sizes_now': {k: len(v) for k, v in still.items()}, 'sizes_before': {k: len(v) for k, v in pristine.items()}})
        sh.case(('preset', preset), len(combo) > 1, 'preset-list-%d' % len(combo), sample={'preset': preset, 'selected': len(got)} if t % 40 == 0 else None)
