"""C13 - data-quality statistics are exact and independent of the batch split (reference-model monitor over histories of batches)."""
from __future__ import annotations

import csv
import itertools
import json
import os
import re
from collections import Counter

from vf import core, gen, pipe

PROPERTY = 'C13'
RULE = ('cases = one history: a row sequence cut into consecutive mini-batches. Exhaustive: every composition (2^(n-1)) of sequences of '
        'n<=9 rows x 3 columns, driven through compute_coverage / compute_cardinalities / compute_value_counts; random compositions of '
        '10^2-10^4 rows through compute_batch_ranking (task identify_rare_values); thresholds 0,1,2,5; missing-symbol sets incl. "", "{}", '
        '"NA"; values that become frequent early and return later, values split across every cut; bounded counter bound below and above '
        'the distinct count; task level: the same file ranked with several mini-batch sizes (annotations, value_repetitions.json, '
        'rare_values.tsv). Every statistic is compared with set/Counter recomputation over the consumed rows and across compositions. '
        'distinct = (sequence hash, composition); non-trivial = at least 2 batches and some value crosses the rare threshold in a '
        'non-final batch.')
REQUIRED = {'coverage-per-batch': 100, 'cardinality-exact': 100, 'repetition-histogram': 100, 'rare-table-exact': 100, 'split-independence': 100,
            'annotation': 4, 'files-split-independent': 2}
EXHAUSTIVE_NOTE = {'quick': 'all compositions of sequences of n<=9 rows (sampled sequences, every composition of each)', 'thorough': 'all compositions of sequences of n<=11 rows'}
ASSUMPTIONS = ['cardinality is compared exactly below the warm-up capacity; a mismatch is re-examined for 32-bit hash collisions among the distinct values',
               'coverage annotation = integer part of the rounded mean of the per-batch percentages (tolerance 1)']
WARM = [{}]
WARM_CODE = 'import outrank.task_ranking'


def plan(tier, seed):
    shards = []
    k = 6 if tier == 'quick' else 12
    for i in range(k):
        shards.append({'name': 'compositions-%d' % i, 'fn': 'shard_compositions', 'args': {'part': i, 'parts': k}})
    r = 4 if tier == 'quick' else 24
    for i in range(r):
        shards.append({'name': 'random-%d' % i, 'fn': 'shard_random', 'args': {'part': i, 'parts': r}})
    shards.append({'name': 'digest-collisions', 'fn': 'shard_collisions', 'args': {}})
    shards.append({'name': 'large-repeats', 'fn': 'shard_large_repeats', 'args': {}})
    for i in range(2 if tier == 'quick' else 12):
        shards.append({'name': 'task-%d' % i, 'fn': 'shard_task', 'args': {'part': i}})
    return shards


def compositions(n):
    """All ways to cut n rows into consecutive non-empty batches (as lists of batch sizes)."""
    for mask in range(1 << (n - 1)):
        sizes, cur = [], 1
        for i in range(n - 1):
            if mask >> i & 1:
                sizes.append(cur)
                cur = 1
            else:
                cur += 1
        sizes.append(cur)
        yield sizes


def exact_stats(rows, cols, missing, rare_bound, hist_bound):
    """Exact recomputation over the consumed rows."""
    card, hist, rare = {}, {}, {}
    for j, c in enumerate(cols):
        vals = [r[j] for r in rows]
        card[c] = len({v for v in vals if v})
        cnt = Counter()
        for v in vals:      # bounded exact counter fed item by item
            if len(cnt) < hist_bound:
                cnt[v] += 1
        hist[c] = dict(cnt)
        for v, k in Counter(vals).items():
            if k <= rare_bound:
                rare[(c, v)] = k
    return card, hist, rare


def more_than_table(counts):
    vals = list(counts.values())
    return {str(x): sum(1 for v in vals if v > x) for x in [0] + [10 ** e for e in range(6)]}


def run_history(sh, cr, rows, cols, sizes, args, via):
    """Feed the row sequence in batches of the given sizes; returns observed state."""
    import pandas as pd
    cov = []
    pos = 0
    for s in sizes:
        chunk = rows[pos:pos + s]
        pos += s
        if via == 'direct':
            df = pd.DataFrame(chunk, columns=cols)
            cov.append(dict(cr.compute_coverage(df, args)))
            cr.compute_cardinalities(df, pipe.NullPbar(), args.max_unique_hist_constraint)
            cr.compute_value_counts(df, args)
        else:
            out = cr.compute_batch_ranking([list(r) for r in chunk], set(), args, pipe.SyncPool(), list(cols), pipe.ListLogger(), pipe.NullPbar())
            cov.append(dict(out[2]))
    card = {c: len(cr.GLOBAL_CARDINALITY_STORAGE[c]) for c in cols}
    hist = {c: dict(cr.GLOBAL_COUNTS_STORAGE[c].default_counter) for c in cols}
    rare = dict(cr.GLOBAL_RARE_VALUE_STORAGE)
    return cov, card, hist, rare


def verify_history(sh, rows, cols, sizes, args, obs, wit_extra):
    cov, card, hist, rare = obs
    missing = set(args.missing_value_symbols.split(','))
    wit = lambda **kw: dict(kw, **wit_extra, batch_sizes=sizes, columns=cols, rows=[list(r) for r in rows[:30]], missing_symbols=sorted(missing),  # noqa: E731
                            rare_bound=args.rare_value_count_upper_bound, hist_bound=args.max_unique_hist_constraint)
    pos = 0
    for b, s in enumerate(sizes):
        chunk = rows[pos:pos + s]
        pos += s
        for j, c in enumerate(cols):
            miss = sum(1 for r in chunk if r[j] in missing)
            exp = 100.0 * (1 - miss / len(chunk))
            sh.check('coverage-per-batch', abs(cov[b][c] - exp) < 1e-9, 'coverage!=100*(1-missing/rows)', lambda: wit(batch=b, column=c, got=cov[b][c], expected=exp))
    ecard, ehist, erare = exact_stats(rows, cols, missing, args.rare_value_count_upper_bound, args.max_unique_hist_constraint)
    for c in cols:
        if card[c] != ecard[c]:
            import xxhash
            distinct = {r[cols.index(c)] for r in rows if r[cols.index(c)]}
            collided = len({xxhash.xxh32(v.encode('utf-8'), seed=20141025).hexdigest() for v in distinct})
            sh.check('cardinality-exact', card[c] == collided, 'cardinality!=distinct-non-empty-values', lambda: wit(column=c, got=card[c], expected=ecard[c]))
        else:
            sh.ok('cardinality-exact')
    sh.check('repetition-histogram', hist == ehist, 'repetition-counts!=exact-recount',
             lambda: wit(got={c: dict(list(hist[c].items())[:10]) for c in cols}, expected={c: dict(list(ehist[c].items())[:10]) for c in cols}))
    sh.check('rare-table-exact', rare == erare, 'rare-value-table!=pairs-with-total<=bound',
             lambda: wit(got={str(k): v for k, v in list(rare.items())[:20]}, expected={str(k): v for k, v in list(erare.items())[:20]},
                         wrong={str(k): (rare.get(k), erare.get(k)) for k in list(set(rare) ^ set(erare))[:10]}))


def crossing_nontrivial(rows, cols, sizes, bound):
    """True if some (column, value) exceeds the rare bound before the final batch and occurs again later."""
    if len(sizes) < 2:
        return False
    seen = Counter()
    pos = 0
    retired = set()
    for b, s in enumerate(sizes):
        for r in rows[pos:pos + s]:
            for j, c in enumerate(cols):
                if (c, r[j]) in retired:
                    return True
                seen[(c, r[j])] += 1
        pos += s
        retired |= {k for k, v in seen.items() if v > bound}
    return False


def make_sequence(rng, n, ncols, hot=True):
    """Rows with values that become frequent early and return later, plus rare values and missing symbols."""
    vals = [['a', 'b', '', '{}', 'NA', 'c'], ['x', 'y', 'x', 'z', ''], ['1', '2', '3', '1', '1', 'NA']]
    rows = []
    for i in range(n):
        row = []
        for j in range(ncols):
            pool = vals[j % len(vals)]
            if hot and rng.random() < 0.5:
                row.append(pool[0])
            else:
                row.append(rng.choice(pool) if rng.random() < 0.8 else 'u%d' % rng.randrange(4))
        rows.append(row)
    return rows


def shard_compositions(sh, part, parts):
    rng = sh.rng('comp', part)
    cols = ['f0', 'f1', 'label']
    nmax = 9 if sh.tier == 'quick' else 11
    nseq = 7 if sh.tier == 'quick' else 10
    for si in range(nseq):
        n = rng.choice([nmax, nmax, nmax - 1, 6, 4])
        if sh.tier == 'thorough' and si > 6:
            n = min(n, 9)
        rows = make_sequence(rng, n, 3)
        # every candidate missing-value symbol occurs somewhere, whatever set of symbols is configured
        for i_, (j_, sym_) in enumerate([(0, '{}'), (0, ''), (2, 'NA'), (1, '{}')]):
            if n > i_:
                rows[rng.randrange(n)][j_] = sym_
        args = pipe.make_args(task='identify_rare_values', heuristic='Constant', rare_value_count_upper_bound=rng.choice([0, 1, 2, 5]),
                              missing_value_symbols=rng.choice([',{}', ',{},NA', 'NA', '{}', ',{},', 'NA,{},NA', '']), max_unique_hist_constraint=rng.choice([2, 3, 30000, 30000]))
        ref = None
        for sizes in compositions(n):
            cr = pipe.fresh_core_ranking()
            try:
                obs = run_history(sh, cr, rows, cols, sizes, args, 'direct')
            except Exception as e:  # noqa: BLE001
                sh.fail('split-independence', 'history:exception:' + type(e).__name__, {'exception': repr(e)[:300], 'sizes': sizes, 'rows': rows})
                continue
            verify_history(sh, rows, cols, sizes, args, obs, {'via': 'direct'})
            key = (obs[1], obs[2], obs[3])
            if ref is None:
                ref = (sizes, key)
            else:
                sh.check('split-independence', key == ref[1], 'statistics-depend-on-batch-split',
                         lambda: {'rows': rows, 'composition_a': ref[0], 'composition_b': sizes, 'a': str(ref[1])[:800], 'b': str(key)[:800], 'rare_bound': args.rare_value_count_upper_bound,
                                  'hist_bound': args.max_unique_hist_constraint})
            sh.case((core.h64(rows), tuple(sizes)), crossing_nontrivial(rows, cols, sizes, args.rare_value_count_upper_bound), 'compositions-n%d' % n,
                    sample={'rows': rows, 'batch_sizes': sizes, 'rare_bound': args.rare_value_count_upper_bound, 'cardinalities': obs[1], 'rare_table': {str(k): v for k, v in obs[3].items()}} if len(sizes) == 3 and si == 0 and sizes[0] == 2 else None)


def shard_random(sh, part, parts):
    rng = sh.rng('rnd', part)
    for t in range(6 if sh.tier == 'quick' else 20):
        n = rng.choice([100, 400, 2000]) if sh.tier == 'quick' else rng.choice([100, 1000, 10000])
        ncols = rng.randint(2, 4)
        cols = ['c%d' % i for i in range(ncols - 1)] + ['label']
        rows = make_sequence(rng, n, ncols, hot=rng.random() < 0.7)
        if rng.random() < 0.5:   # a high-cardinality column
            for i, r in enumerate(rows):
                r[0] = 'id%d' % (i % max(2, n // 3))
        args = pipe.make_args(task='identify_rare_values', heuristic='Constant', rare_value_count_upper_bound=rng.choice([0, 1, 2, 5]),
                              missing_value_symbols=rng.choice([',{}', ',{},NA', 'NA', ',,{}']), max_unique_hist_constraint=rng.choice([5, 50, 30000]))
        ref = None
        for rep in range(4):
            # random composition
            cuts = sorted(rng.sample(range(1, n), rng.choice([0, 1, 2, 5, 12])))
            sizes = [b - a for a, b in zip([0] + cuts, cuts + [n])]
            cr = pipe.fresh_core_ranking()
            try:
                obs = run_history(sh, cr, rows, cols, sizes, args, 'compute_batch_ranking' if rep % 2 == 0 else 'direct')
            except Exception as e:  # noqa: BLE001
                sh.fail('split-independence', 'history:exception:' + type(e).__name__, {'exception': repr(e)[:300], 'sizes': sizes})
                continue
            verify_history(sh, rows, cols, sizes, args, obs, {'via': 'compute_batch_ranking' if rep % 2 == 0 else 'direct', 'n_rows': n})
            key = (obs[1], obs[2], obs[3])
            if ref is None:
                ref = (sizes, key)
            else:
                sh.check('split-independence', key == ref[1], 'statistics-depend-on-batch-split', lambda: {'n_rows': n, 'composition_a': ref[0], 'composition_b': sizes,
                         'rare_a': len(ref[1][2]), 'rare_b': len(key[2]), 'card_a': ref[1][0], 'card_b': key[0]})
            sh.case((core.h64(rows), tuple(sizes)), crossing_nontrivial(rows, cols, sizes, args.rare_value_count_upper_bound), 'random-n%d' % n,
                    sample={'n_rows': n, 'batch_sizes': sizes[:8], 'cardinalities': obs[1], 'rare_pairs': len(obs[3])} if rep == 1 and t == 0 else None)


def parse_annotations(path):
    out = {}
    with open(path, newline='') as f:
        r = csv.reader(f, delimiter='\t')
        hdr = next(r)
        for row in r:
            for nm in (row[hdr.index('FeatureA')], row[hdr.index('FeatureB')]):
                m = re.fullmatch(r'(.*)-\((\d+); (-?\d+)\)', nm)
                if m:
                    out[m.group(1)] = (int(m.group(2)), int(m.group(3)))
    return out


def shard_task(sh, part):
    """Files written by the real task for several mini-batch sizes over the same rows."""
    import outrank.task_ranking as tr
    rng = sh.rng('task', part)
    n = 240
    ncols = 4
    cols = ['c%d' % i for i in range(ncols - 1)] + ['label']
    rows = make_sequence(rng, n, ncols)
    for i, r in enumerate(rows):
        r[1] = 'k%d' % (i % 50) if i % 7 else ''
        r[-1] = 'y%d' % (i % 2)
        if part % 2 == 0:
            r[0] = 'id%d' % (i // 2) if i < 60 else r[0]     # genuinely rare values; odd parts have none: the report must then be empty
        if 120 <= i < 160:
            r[2] = rng.choice(['', '{}'])                     # a field that is missing in every row of one whole mini-batch (0% coverage there, for B = 40 and 20)
    dpath = os.path.join(sh.scratch, 'data')
    os.makedirs(dpath, exist_ok=True)
    pipe.write_csv(os.path.join(dpath, 'data.csv'), cols, rows)
    missing = ',{}'
    bound = rng.choice([1, 2, 5])
    results = {}
    for B in (40, 60, 120, 240) if sh.tier == 'quick' else (20, 30, 40, 60, 80, 120, 240):
        for task in ('ranking', 'identify_rare_values'):
            cr = pipe.fresh_core_ranking()
            tr.Pool = lambda *a_, **k_: pipe.SyncPool()
            tr.estimate_importances_minibatches = cr.estimate_importances_minibatches
            out_dir = os.path.join(sh.scratch, 'out-%s-%d' % (task, B))
            args = pipe.make_args(task=task, data_path=dpath, output_folder=out_dir, minibatch_size=B, heuristic='max-value-coverage', target_ranking_only='True',
                                  missing_value_symbols=missing, rare_value_count_upper_bound=bound, include_cardinality_in_feature_names='True')
            try:
                tr.outrank_task_conduct_ranking(args)
            except SystemExit:
                pass
            except Exception as e:  # noqa: BLE001
                sh.fail('files-split-independent', 'task:exception:' + type(e).__name__, {'exception': repr(e)[:300], 'B': B, 'task': task})
                continue
            if task == 'ranking':
                ann = parse_annotations(os.path.join(out_dir, 'pairwise_ranks.tsv'))
                reps = json.load(open(os.path.join(out_dir, 'value_repetitions.json')))
                results.setdefault('ann', {})[B] = ann
                results.setdefault('reps', {})[B] = reps
                ecard, ehist, _ = exact_stats(rows, cols, set(missing.split(',')), bound, 30000)
                for j, c in enumerate(cols):
                    covs = []
                    for b0 in range(0, n, B):
                        chunk = rows[b0:b0 + B]
                        covs.append(100.0 * (1 - sum(1 for r in chunk if r[j] in set(missing.split(','))) / len(chunk)))
                    mean = sum(covs) / len(covs)
                    got = ann.get(c)
                    sh.check('annotation', got is not None and got[0] == ecard[c] and abs(got[1] - mean) <= 1.0, 'name-annotation!=(cardinality; mean coverage)',
                             lambda: {'column': c, 'B': B, 'annotation': got, 'exact_cardinality': ecard[c], 'mean_coverage': mean})
                    sh.check('repetition-histogram', {k: v for k, v in reps.get(c, {}).items()} == more_than_table(ehist[c]), 'value_repetitions.json!=exact-histogram',
                             lambda: {'column': c, 'B': B, 'got': reps.get(c), 'expected': more_than_table(ehist[c])})
            else:
                p = os.path.join(out_dir, 'rare_values.tsv')
                table = {}
                with open(p, newline='') as f:
                    r = csv.reader(f, delimiter='\t')
                    next(r)
                    for row in r:
                        table[(row[0], row[1])] = int(row[2])
                results.setdefault('rare', {})[B] = table
                _, _, erare = exact_stats(rows, cols, set(missing.split(',')), bound, 30000)
                # pandas writes the empty string as an empty field; keys compare equal as strings
                sh.check('rare-table-exact', table == {(c, v): k for (c, v), k in erare.items()}, 'rare_values.tsv!=pairs-with-total<=bound',
                         lambda: {'B': B, 'bound': bound, 'got': {str(k): v for k, v in list(table.items())[:15]}, 'expected': {str(k): v for k, v in list(erare.items())[:15]}})
            sh.case(('task', task, B, part), B < n, 'task/%s' % task, sample={'task': task, 'minibatch_size': B, 'rows': n, 'annotations': results.get('ann', {}).get(B)} if B == 60 else None)
    for kind in ('reps', 'rare'):
        vals = list(results.get(kind, {}).items())
        for (b1, v1), (b2, v2) in zip(vals, vals[1:]):
            sh.check('files-split-independent', v1 == v2, kind + '-file-depends-on-minibatch-size', lambda: {'B_a': b1, 'B_b': b2, 'a': str(v1)[:500], 'b': str(v2)[:500]})
    cards = {B: {c: a[0] for c, a in ann.items()} for B, ann in results.get('ann', {}).items()}
    vals = list(cards.items())
    for (b1, v1), (b2, v2) in zip(vals, vals[1:]):
        sh.check('files-split-independent', v1 == v2, 'annotated-cardinality-depends-on-minibatch-size', lambda: {'B_a': b1, 'B_b': b2, 'a': v1, 'b': v2})


def shard_large_repeats(sh):
    """Cardinality stays exact below the warm-up capacity (2^18) whatever the split: a feature with more than 2^17 distinct values that all
    come back in a later mini-batch (cached values + the next batch's values exceed the capacity, their union does not)."""
    import pandas as pd
    rng = sh.rng('large-repeats')
    for nd in ((140000,) if sh.tier == 'quick' else (131073, 140000, 200000, 262143)):
        ids = ['id%07d' % i for i in range(nd)]
        seq = ids + ids[::-1] + ids[: nd // 3]
        got = {}
        for split in ('one-batch', 'per-repetition', 'uneven'):
            cr = pipe.fresh_core_ranking()
            cuts = {'one-batch': [len(seq)], 'per-repetition': [nd, nd, len(seq) - 2 * nd], 'uneven': [nd // 2, nd, len(seq) - nd - nd // 2]}[split]
            pos = 0
            for size in cuts:
                chunk = seq[pos:pos + size]
                pos += size
                df = pd.DataFrame({'big': chunk, 'label': [rng.choice(['0', '1']) for _ in chunk]})
                ok, _ = sh.call('cardinality-exact', 'compute_cardinalities', cr.compute_cardinalities, df, pipe.NullPbar(), 30000)
                if not ok:
                    break
            got[split] = len(cr.GLOBAL_CARDINALITY_STORAGE['big'])
            sh.check('cardinality-exact', got[split] == nd, 'cardinality!=distinct-count-below-warm-up-capacity', lambda: {'distinct': nd, 'reported': got[split], 'batch_sizes': cuts})
        sh.check('split-independence', len(set(got.values())) == 1, 'statistics-depend-on-batch-split', lambda: {'distinct': nd, 'reported_by_split': got})
        sh.case(('large-repeats', nd), True, 'large-repeats', sample={'distinct': nd, 'rows': len(seq), 'reported_by_split': got})


def shard_collisions(sh):
    """Two distinct values whose 32-bit digests (the project's seeded hash) coincide: one becomes frequent and is retired in an early
    batch, the other occurs once later. Identity in the rare-value report and in the repetition histogram is identity of values."""
    pairs = gen.xxh32_colliding_pairs(20141025, want=3)
    if not pairs:
        sh.inconclusive_note('no colliding pair found')
        return
    cols = ['id', 'label']
    for (a, b) in pairs:
        for bound in (1, 2):
            rows = [[a, '1']] * (bound + 2) + [['x', '0'], ['y', '1']] + [[b, '0']] + [['x', '1']]
            args = pipe.make_args(task='identify_rare_values', heuristic='Constant', rare_value_count_upper_bound=bound, missing_value_symbols=',{}')
            ref = None
            for sizes in ([len(rows)], [bound + 2, len(rows) - bound - 2], [bound + 1, 1, 2, len(rows) - bound - 4], [1] * len(rows)):
                cr = pipe.fresh_core_ranking()
                try:
                    obs = run_history(sh, cr, rows, cols, sizes, args, 'direct')
                except Exception as e:  # noqa: BLE001
                    sh.fail('rare-table-exact', 'history:exception:' + type(e).__name__, {'exception': repr(e)[:300]})
                    continue
                cov, card, hist, rare = obs
                _, ehist, erare = exact_stats(rows, cols, {'', '{}'}, bound, 30000)
                sh.check('rare-table-exact', rare == erare, 'rare-value-table!=pairs-with-total<=bound', lambda: {'colliding_values': [a, b], 'batch_sizes': sizes, 'got': {str(k): v for k, v in rare.items()}, 'expected': {str(k): v for k, v in erare.items()}})
                sh.check('repetition-histogram', hist == ehist, 'repetition-counts!=exact-recount', lambda: {'colliding_values': [a, b], 'got': hist, 'expected': ehist})
                key = (hist, rare)
                if ref is None:
                    ref = key
                else:
                    sh.check('split-independence', key == ref, 'statistics-depend-on-batch-split', lambda: {'colliding_values': [a, b], 'batch_sizes': sizes})
                sh.case(('collision', a, b, bound, tuple(sizes)), len(sizes) > 1, 'digest-collision', sample={'values_with_equal_32bit_digest': [a, b], 'batch_sizes': sizes, 'rare_table': {str(k): v for k, v in rare.items()}} if len(sizes) == 2 and bound == 1 else None)
