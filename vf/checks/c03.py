"""C03 - cardinality correction = H(Y*|X) - H(Y|X) with the displaced copy Y* (reference-model monitor)."""
from __future__ import annotations

from vf import gen, oracles

PROPERTY = 'C03'
RULE = ('cases = (Y, X) scored with correction on: every pair of set partitions of n<=6 (quick) / n<=7 (thorough) rows (this covers '
        'every row order of every joint structure on that many rows), seeded random structures of the C01 classes x row-order '
        'variants (as generated, sorted by X, sorted by Y, reversed, blocks interleaved) at n up to 10^3 (quick) / 2*10^4 (thorough); '
        'planted-signal family through conduct_feature_ranking by heuristic name: binary target, signal = target with 15% flips, '
        'independent noise of cardinality 2,5,50,sqrt(n),n/10,n/2,n at n in {4000, 8000, 16384}. distinct = (joint structure '
        'signature, row-order class) or (planted, n, seed); non-trivial = the displaced-copy model differs from the plain MI by more '
        'than 10*tol (the correction is observable).')
REQUIRED = {'corrected-model': 100, 'constant-zero': 5, 'alldistinct-zero': 5, 'self-entropy': 20, 'planted-ranking': 4, 'name-to-flag': 4}
EXHAUSTIVE_NOTE = {'quick': 'all ordered pairs of set partitions of n rows, n = 1..6', 'thorough': 'all ordered pairs of set partitions of n rows, n = 1..7'}
ASSUMPTIONS = ['float32 tolerance as in C01', 'planted family: signal margin measured at > 20 sigma of the corrected noise scores (DESIGN.md 3/C03)']
WARM = [{}]
WARM_CODE = 'import outrank.algorithms.importance_estimator'


def plan(tier, seed):
    shards = []
    k = 5 if tier == 'quick' else 14
    for i in range(k):
        shards.append({'name': 'exhaustive-%d' % i, 'fn': 'shard_exhaustive', 'args': {'part': i, 'parts': k, 'nmax': 6 if tier == 'quick' else 7}})
    nr = 5 if tier == 'quick' else 24
    for i in range(nr):
        shards.append({'name': 'random-%d' % i, 'fn': 'shard_random', 'args': {'part': i, 'parts': nr}})
    shards.append({'name': 'random-interpreted', 'fn': 'shard_random', 'args': {'part': 1, 'parts': nr}, 'env': {'NUMBA_DISABLE_JIT': '1'}})     # kernels run by the interpreter
    npl = 4 if tier == 'quick' else 20
    for i in range(npl):
        shards.append({'name': 'planted-%d' % i, 'fn': 'shard_planted', 'args': {'part': i, 'parts': npl}})
    shards.append({'name': 'wide-codes', 'fn': 'shard_wide', 'args': {}})
    shards.append({'name': 'numba-unavailable', 'fn': 'shard_numba_missing', 'args': {}})
    for i in range(2 if tier == 'quick' else 6):
        shards.append({'name': 'planted-pipeline-%d' % i, 'fn': 'shard_planted_pipeline', 'args': {'part': i}})
    return shards


def _est():
    import numpy as np
    from outrank.algorithms.feature_ranking import ranking_mi_numba as m
    one = np.float32(1.0)

    def est(Y, X, c=True):
        return float(m.mutual_info_estimator_numba(np.ascontiguousarray(Y, dtype=np.int32), np.ascontiguousarray(X, dtype=np.int32), one, bool(c)))
    return est


def observe(sh, est, Y, X, cls, sample=False):
    import numpy as np
    n = len(X)
    model = oracles.corrected_model(Y, X)
    plain = oracles.plugin_mi(Y, X)
    wit = lambda **kw: dict(kw, n=n, cls=cls, Y=Y[:300], X=X[:300], model_corrected=model, model_plain=plain)  # noqa: E731
    ok, got = sh.call('corrected-model', 'estimator', est, Y, X)
    if not ok:
        return
    sh.check('corrected-model', np.isfinite(got) and oracles.close32(got, model), 'corrected!=displaced-copy-model', lambda: wit(got=got))
    ident = bool(np.array_equal(Y, X))
    ny = len(set(Y.tolist()))
    if ny == 1 and not ident:
        sh.check('constant-zero', abs(got) <= oracles.TOL_ABS, 'constant-feature-nonzero', lambda: wit(got=got))
    if ny == n and n > 1 and not ident:
        sh.check('alldistinct-zero', abs(got) <= oracles.TOL_ABS * 2, 'identifier-feature-nonzero', lambda: wit(got=got))
    if ident:
        sh.check('self-entropy', oracles.close32(got, oracles.entropy(X)), 'self-score!=entropy', lambda: wit(got=got))
    nontrivial = (not ident) and abs(model - plain) > 10 * (oracles.TOL_ABS + oracles.TOL_REL * abs(plain))
    sh.case((gen.joint_signature(Y, X), cls.split('/')[-1]), nontrivial, cls,
            sample={'n': n, 'class': cls, 'Y': Y[:24], 'X': X[:24], 'score': got, 'model': model, 'plain_mi': plain} if sample else None)


def shard_exhaustive(sh, part, parts, nmax):
    import numpy as np
    est = _est()
    k = 0
    for n in range(1, nmax + 1):
        P = [np.array(p, dtype=np.int32) for p in gen.rgs(n)]
        for i in gen.chunks(range(len(P)), parts)[part]:
            for j in range(len(P)):
                k += 1
                observe(sh, est, P[i], P[j], 'exhaustive-n%d' % n, sample=(k % 6000 == 1))
            ok, s = sh.call('self-entropy', 'estimator', est, P[i], P[i].copy())
            if ok:
                sh.check('self-entropy', oracles.close32(s, oracles.entropy(P[i])), 'self-score!=entropy', lambda: {'X': P[i], 'got': s})
    sh.notes['exhaustive_pairs'] = k


def order_variants(Y, X, rng):
    import numpy as np
    n = len(X)
    out = {'as-generated': (Y, X)}
    o = np.argsort(X, kind='stable')
    out['sorted-by-X'] = (Y[o], X[o])
    o = np.argsort(Y, kind='stable')
    out['sorted-by-Y'] = (Y[o], X[o])
    out['reversed'] = (Y[::-1].copy(), X[::-1].copy())
    if n >= 4:
        o = np.concatenate([np.arange(0, n, 2), np.arange(1, n, 2)])
        out['interleaved'] = (Y[o], X[o])
    return out


def shard_random(sh, part, parts):
    import random
    import numpy as np
    est = _est()
    rng, nprng = sh.rng('random', part), sh.nprng('random', part)
    sizes = [1, 2, 3, 5, 8, 13, 50, 200, 1000] + ([5000, 20000] if sh.tier == 'thorough' else [])
    reps = 3 if sh.tier == 'quick' else 24
    todo = [(cls, n, r) for cls in gen.PAIR_CLASSES for n in sizes for r in range(reps if n <= 1000 else 1)]
    random.Random(sh.seed).shuffle(todo)
    for t, (cls, n, r) in enumerate(gen.chunks(todo, parts)[part]):
        Y, X = gen.random_pair(rng, nprng, cls, n)
        for name, (y, x) in order_variants(Y, X, rng).items():
            observe(sh, est, np.ascontiguousarray(y), np.ascontiguousarray(x), cls + '/' + name, sample=(t % 200 == 0 and name == 'sorted-by-X'))


def shard_wide(sh):
    """More than 2^16 distinct codes on the feature side / codes above 2^16 (narrow-integer regimes)."""
    import numpy as np
    est = _est()
    nprng = sh.nprng('wide')
    n = 70000
    ident = nprng.permutation(n).astype(np.int32)
    for k in (2, 3):
        target = nprng.integers(0, k, n).astype(np.int32)
        observe(sh, est, ident, target, 'identifier-with-more-than-2^16-values', sample=True)
    two = np.where(nprng.random(n) < 0.5, 10, 65546).astype(np.int32)
    target = np.where(nprng.random(n) < 0.2, 1 - (two == 10), (two == 10)).astype(np.int32)
    observe(sh, est, two, target, 'codes-above-2^16', sample=True)
    observe(sh, est, (two + 3 * 65536).astype(np.int32), target, 'codes-above-2^16')


def shard_numba_missing(sh):
    """Fault injection: the numba import fails. The corrected heuristic may then fail loudly, but it must not silently return some other
    estimator's value under its name."""
    import sys
    import types
    import numpy as np
    sys.modules['numba'] = None                      # 'import numba' now raises ImportError in this process
    for m in [k for k in sys.modules if k.startswith('outrank')]:
        del sys.modules[m]
    import logging
    logging.disable(logging.CRITICAL)
    import io
    import contextlib
    with contextlib.redirect_stderr(io.StringIO()):
        from outrank.algorithms import importance_estimator as ie
    if getattr(ie, 'numba_available', None) is not False:
        sh.inconclusive_note('numba import fault was not effective')
        return
    r = sh.nprng('nomba')
    loud = silent_ok = 0
    for t in range(20):
        n = 2000
        target = r.integers(0, 2, n).astype(np.int32)
        feats = {'identifier': r.permutation(n).astype(np.int32), 'noise-1000': r.integers(0, 1000, n).astype(np.int32),
                 'signal': np.where(r.random(n) < 0.15, 1 - target, target).astype(np.int32)}
        for name, f in feats.items():
            args = types.SimpleNamespace(heuristic='MI-numba-randomized', mi_stratified_sampling_ratio=1.0)
            try:
                got = float(ie.conduct_feature_ranking(f, target, args))
            except Exception:
                loud += 1
                sh.ok('corrected-model')
                continue
            model = oracles.corrected_model(f, target)
            silent_ok += 1
            sh.check('corrected-model', oracles.close32(got, model), 'numba-missing:silently-returns-another-score', lambda: {'feature': name, 'got': got, 'model_corrected': model, 'plain_mi': oracles.plugin_mi(f, target)})
    sh.notes['numba_missing'] = {'loud_failures': loud, 'values_returned': silent_ok}
    sh.case(('numba-missing',), True, 'fault-injection/numba-import-fails', sample={'loud_failures': loud, 'values_returned': silent_ok})


def shard_planted(sh, part, parts):
    """Ranking corollary through the heuristic-name dispatch (name -> correction flag)."""
    import types
    import numpy as np
    from outrank.algorithms import importance_estimator as ie
    est = _est()
    seeds = range(20) if sh.tier == 'quick' else range(400)
    jobs = [(n, s) for n in (4000, 8000, 16384) for s in seeds]
    jobs = gen.chunks(jobs, parts)[part]
    if sh.tier == 'quick':
        jobs = jobs[:5]
    elif len(jobs) > 40:
        jobs = jobs[:40]
    for n, s in jobs:
        r = np.random.default_rng([sh.seed, n, s])
        target = r.integers(0, 2, n).astype(np.int32)
        flips = r.random(n) < 0.15
        feats = {'signal': np.where(flips, 1 - target, target).astype(np.int32)}
        for card in sorted({2, 5, 50, int(n ** 0.5), n // 10, n // 2}):
            feats['noise-%d' % card] = r.integers(0, card, n).astype(np.int32)
        feats['noise-id'] = r.permutation(n).astype(np.int32)
        scores, plain = {}, {}
        for name, f in feats.items():
            a = types.SimpleNamespace(heuristic='MI-numba-randomized', mi_stratified_sampling_ratio=1.0)
            ok, sc = sh.call('name-to-flag', 'conduct_feature_ranking', ie.conduct_feature_ranking, f.reshape(-1, 1), target, a)
            if not ok:
                return
            scores[name] = float(sc)
            # the named heuristic must be the corrected estimator (name -> flag)
            direct = est(f, target, True)
            sh.check('name-to-flag', scores[name] == direct, 'heuristic-name-not-corrected-estimator',
                     lambda: {'feature': name, 'via_name': scores[name], 'direct_corrected': direct, 'direct_plain': est(f, target, False)})
            a3 = types.SimpleNamespace(heuristic='MI-numba-3mr', mi_stratified_sampling_ratio=1.0)
            plain[name] = float(ie.conduct_feature_ranking(f.reshape(-1, 1), target, a3))
        best_noise = max(v for k, v in scores.items() if k != 'signal')
        sh.check('planted-ranking', scores['signal'] > best_noise, 'noise-outranks-signal',
                 lambda: {'n': n, 'seed': s, 'scores': scores})
        sh.check('planted-ranking', abs(scores['noise-id']) <= 2 * oracles.TOL_ABS, 'identifier-feature-nonzero', lambda: {'n': n, 'seed': s, 'scores': scores})
        discriminating = plain['noise-id'] > plain['signal']
        sh.classes['planted: uncorrected score ranks the id feature first' if discriminating else 'planted: NOT discriminating'] += 1
        sh.case(('planted', n, s), discriminating, 'planted-n%d' % n,
                sample={'n': n, 'seed': s, 'corrected_scores': scores, 'uncorrected_scores': plain} if s == jobs[0][1] else None)


def shard_planted_pipeline(sh, part):
    """The same corollary observed where users see it: consecutive equally sized mini-batches scored by mixed_rank_graph
    (heuristic selected by name) in one process; every feature-label score is also compared with the model on that batch."""
    import numpy as np
    import pandas as pd
    from vf import pipe
    cr = pipe.fresh_core_ranking()
    r = sh.nprng('pp', part)
    n = 4000
    for batch in range(4 if sh.tier == 'quick' else 9):
        target = r.integers(0, 2, n)
        sig = np.where(r.random(n) < 0.15, 1 - target, target)
        cols = {'signal': sig, 'noise-5': r.integers(0, 5, n), 'noise-400': r.integers(0, 400, n), 'noise-id': r.permutation(n), 'const': np.zeros(n, dtype=int), 'label': target}
        variant = ('strings', 'label-in-names', 'integers')[(batch + part) % 3]
        if variant == 'label-in-names':
            cols = {('label_' + k if k != 'label' else k): v for k, v in cols.items()}        # feature names containing the label name
        if variant == 'integers':
            # library use with integer columns: target in {-1, +1}, features with negative and very large codes
            df = pd.DataFrame({k: (np.asarray(v).astype(np.int64) * 2 - 1 if k == 'label' else np.asarray(v).astype(np.int64) * 7 - 3 + (2 ** 31 if k == 'noise-5' else 0)) for k, v in cols.items()})
        else:
            df = pd.DataFrame({k: ['v%d' % x for x in v] for k, v in cols.items()})
        sig_name = 'label_signal' if variant == 'label-in-names' else 'signal'
        args = pipe.make_args(heuristic='MI-numba-randomized', target_ranking_only='True', combination_number_upper_bound=10 ** 6)
        ok, out = sh.call('planted-ranking', 'mixed_rank_graph', cr.mixed_rank_graph, df, args, pipe.SyncPool(), pipe.NullPbar())
        if not ok:
            return
        scores = {a: float(s) for a, b, s in out.triplet_scores if b == 'label'}
        codes = {k: np.array(pipe.codes_sorted(df[k].tolist()), dtype=np.int32) for k in cols}       # rank among sorted distinct values (numeric for integers)
        for k in cols:
            exp = oracles.corrected_model(codes[k], codes['label'])
            sh.check('corrected-model', oracles.close32(scores[k], exp), 'pipeline-score!=displaced-copy-model-on-this-batch',
                     lambda: {'batch': batch, 'feature': k, 'got': scores[k], 'model': exp, 'all_scores': scores})
        best_noise = max(v for k, v in scores.items() if k not in (sig_name, 'label'))
        sh.check('planted-ranking', scores[sig_name] > best_noise, 'noise-outranks-signal', lambda: {'batch': batch, 'variant': variant, 'scores': scores})
        sh.case(('planted-pipeline', part, batch), True, 'planted-pipeline', sample={'batch': batch, 'scores': scores} if batch == 1 else None)
