"""C18 - feature summary = per-feature median of label scores, sorted, normalised (pure recomputation from the triplet table)."""
from __future__ import annotations

import csv
import os
import statistics

from vf import core, gen, pipe

PROPERTY = 'C18'
RULE = ('cases = one run of outrank_task_result_summary on a generated pairwise_ranks.tsv: 1..60 features, annotated "name-(card; cov)" and '
        'plain names (also features whose name starts with the label name), one or both orientations, duplicate rows from several batches '
        'with differing and with identical scores, feature-feature rows mixed in, negative scores, tiny (1e-9) and large-offset (1500 + 1e-3) score ranges, heuristic names with and without "MI", interaction orders '
        '1-3 with " AND " names; plus summaries of real ranking-task outputs. distinct = (table hash, heuristic class, order); non-trivial = '
        'at least 3 features with unequal medians.')
REQUIRED = {'features-once': 100, 'score=median': 100, 'descending': 100, 'mi-normalised': 30, 'aggregated-table': 20}
ASSUMPTIONS = ['base feature names avoid "-", the substring "AND", pure numerals and NA-like tokens', 'MI cases have at least two distinct medians (otherwise min-max normalisation is 0/0)']
WARM = [{}]
WARM_CODE = 'import outrank.task_summary'


def plan(tier, seed):
    shards = []
    for i in range(6 if tier == 'quick' else 36):
        shards.append({'name': 'tables-%d' % i, 'fn': 'shard_tables', 'args': {'part': i}})
    for i in range(1 if tier == 'quick' else 10):
        shards.append({'name': 'after-task-%d' % i, 'fn': 'shard_after_task', 'args': {'part': i}})
    return shards


def read_tsv(path):
    with open(path, newline='') as f:
        r = csv.reader(f, delimiter='\t')
        hdr = next(r, None)
        return hdr, [row for row in r]


def base(name):
    return name.split('-')[0]


def expected_summary(rows, label, heuristic):
    per = {}
    for a, b, s in rows:
        if base(a) == label:
            per.setdefault(b, []).append(s)
        elif base(b) == label:
            per.setdefault(a, []).append(s)
    med = {k: statistics.median(v) for k, v in per.items()}
    if 'MI' in heuristic and med:
        lo, hi = min(med.values()), max(med.values())
        if hi > lo:
            med = {k: (v - lo) / (hi - lo) for k, v in med.items()}
        else:
            med = None
    return med


def verify(sh, folder, rows, label, heuristic, order, origin):
    hdr, got_rows = read_tsv(os.path.join(folder, 'feature_singles.tsv'))
    exp = expected_summary(rows, label, heuristic)
    wit = lambda **kw: dict(kw, origin=origin, heuristic=heuristic, label=label, order=order, table_head=rows[:25], singles_head=got_rows[:25])  # noqa: E731
    if exp is None:
        sh.classes['MI with a single distinct median (normalisation undefined; skipped)'] += 1
        return False
    names = [r[0] for r in got_rows]
    sh.check('features-once', sorted(names) == sorted(exp) and hdr == ['Feature', 'Score ' + heuristic], 'feature-set-or-multiplicity-wrong',
             lambda: wit(missing=sorted(set(exp) - set(names))[:6], extra=sorted(set(names) - set(exp))[:6], duplicated=[n for n in set(names) if names.count(n) > 1][:6]))
    got = {}
    for r in got_rows:
        try:
            got[r[0]] = float(r[1])
        except (ValueError, IndexError):
            got[r[0]] = float('nan')          # an empty / non-numeric score cell: reported below as a wrong score
    span = (max(exp.values()) - min(exp.values())) if exp else 1.0
    bad = [(k, got.get(k), v) for k, v in exp.items() if k not in got or not (abs(got[k] - v) <= 1e-9 * max(span, 1e-300) + 1e-9 * abs(v))]
    sh.check('score=median' if 'MI' not in heuristic else 'mi-normalised', not bad, 'score!=median-of-label-scores' if 'MI' not in heuristic else 'score!=min-max-normalised-median', lambda: wit(wrong=bad[:6]))
    if 'MI' in heuristic:
        sh.check('mi-normalised', bool(got) and abs(max(got.values()) - 1.0) < 1e-9 and abs(min(got.values())) < 1e-9, 'best!=1-or-worst!=0', lambda: wit(best=max(got.values()), worst=min(got.values())))
    vals = [got[r[0]] for r in got_rows]
    sh.check('descending', all(vals[i] >= vals[i + 1] for i in range(len(vals) - 1)), 'not-in-descending-order', lambda: wit(scores=vals[:30]))
    if order > 1:
        p = os.path.join(folder, 'feature_singles_aggregated.tsv')
        store = {}
        for k, v in exp.items():
            if ' AND ' in k:
                for el in base(k).split(' AND '):
                    store.setdefault(el, []).append(got.get(k, v))
        eagg = {k: statistics.median(v) for k, v in store.items()}
        if eagg:
            ahdr, arows = read_tsv(p)
            gagg = {}
            for r in arows:
                try:
                    gagg[r[0]] = float(r[1])
                except (ValueError, IndexError):
                    gagg[r[0]] = float('nan')
            bad = [(k, gagg.get(k), v) for k, v in eagg.items() if k not in gagg or not (abs(gagg[k] - v) <= 1e-9)]
            sh.check('aggregated-table', not bad and len(arows) == len(eagg), 'aggregated-score!=median-over-interactions', lambda: wit(wrong=bad[:6], aggregated=arows[:12]))
        else:
            # no interaction was scored against the label in this table: the aggregated table of this folder lists no constituent
            # (an absent or empty file both say so; rows left over from an earlier summary of the same folder do not)
            stale = []
            if os.path.exists(p):
                with open(p, newline='') as f:
                    stale = [r for r in csv.reader(f, delimiter='\t') if r and any(c.strip() for c in r)][1:]
            sh.check('aggregated-table', not stale, 'aggregated-table-lists-constituents-although-no-interaction-was-scored', lambda: wit(aggregated=stale[:12]))
    meds = set(round(v, 9) for v in exp.values())
    return len(exp) >= 3 and len(meds) > 1


def shard_tables(sh, part):
    from outrank.task_summary import outrank_task_result_summary
    pipe.quiet()
    rng = sh.rng('tables', part)
    reps = 60 if sh.tier == 'quick' else 1500
    for t in range(reps):
        nf = rng.choice([1, 2, 3, 5, 12, 60])
        label = rng.choice(['label', 'click', 'y', 'is.click', 'lab+el', 'y(1)', 'a|b'])
        order = rng.choice([1, 1, 2, 3])
        pool = ['f%d' % i for i in range(80)] + [label + '_rate', label + 's', label + '2', 'x' + label, 'a b', 'é', 'tr_sqrt', 'F1', 'f1_tr_log(x+1)',
                label.replace('.', '_').replace('+', '').replace('|', ''), label.replace('.', 'X'), 'a', 'b', 'lab', 'labbel', 'y1']
        pool = list(dict.fromkeys(p_ for p_ in pool if p_ != label))
        names = rng.sample(pool, nf)
        if order > 1 and nf >= 3:
            inter = []
            for _ in range(rng.randint(1, 6)):
                inter.append(' AND '.join(sorted(rng.sample(names[:max(3, nf // 2)], min(order, len(names[:max(3, nf // 2)]))))))
            names = list(dict.fromkeys(names + inter))
        annotate = rng.random() < 0.5
        ann = {n: (n + '-(%d; %d)' % (rng.randint(1, 999), rng.randint(0, 100)) if annotate else n) for n in names + [label]}
        heuristic = rng.choice(['MI-numba-randomized', 'MI', 'MI-numba-3mr', 'max-value-coverage', 'correlation-Pearson', 'surrogate-SGD', 'AMI'])
        nb = rng.choice([1, 1, 2, 3, 5])
        rows = []
        neg = rng.random() < 0.4
        # score regimes: ordinary, tiny (1e-9 .. 1e-6 apart) and large with differences only in the low digits
        regime = rng.choice(['ordinary', 'ordinary', 'tiny', 'large-offset'])
        scale, offset = {'ordinary': (1.0, 0.0), 'tiny': (rng.choice([1e-9, 1e-7]), 0.0), 'large-offset': (1e-3, 1500.0)}[regime]
        for n in names:
            centre = rng.uniform(-1 if neg else 0, 1)
            for b in range(nb):
                s = offset + scale * (round(centre + rng.uniform(-0.2, 0.2), 6) if rng.random() < 0.8 else rng.choice([0.0, 0.5]))
                orient = rng.choice(['both', 'both', 'a', 'b'])
                if orient in ('both', 'a'):
                    rows.append((ann[n], ann[label], s))
                if orient in ('both', 'b'):
                    rows.append((ann[label], ann[n], s))
        for b in range(nb):
            rows.append((ann[label], ann[label], offset + scale * rng.choice([0.69, 0.7, 1.0])))
        # feature-feature rows (pairwise mode) must not influence the summary
        if rng.random() < 0.5 and nf >= 2:
            for _ in range(rng.randint(1, 20)):
                a, b = rng.sample(names, 2) if nf >= 2 else (names[0], names[0])
                s = round(rng.uniform(-1, 1), 6)
                rows.append((ann[a], ann[b], s))
                rows.append((ann[b], ann[a], s))
        rng.shuffle(rows)
        folder = os.path.join(sh.scratch, 'case-%d' % (t // 3))        # every folder is summarised three times, the table rewritten in between
        os.makedirs(folder, exist_ok=True)
        with open(os.path.join(folder, 'pairwise_ranks.tsv'), 'w', newline='') as f:
            w = csv.writer(f, delimiter='\t', lineterminator='\n')
            w.writerow(['FeatureA', 'FeatureB', 'Score'])
            for r in sorted(rows, key=lambda r: r[2]):
                w.writerow(r)
        args = pipe.make_args(output_folder=folder, label_column=label, heuristic=heuristic, interaction_order=order, tldr=False)
        ok, _ = sh.call('features-once', 'outrank_task_result_summary', outrank_task_result_summary, args)
        if not ok:
            continue
        nontrivial = verify(sh, folder, rows, label, heuristic, order, 'generated-table')
        sh.case((core.h64(sorted(rows)), 'MI' in heuristic, order), nontrivial, '%s/order%d/%s' % ('MI' if 'MI' in heuristic else 'non-MI', order, 'annotated' if annotate else 'plain'),
                sample={'label': label, 'heuristic': heuristic, 'order': order, 'rows_head': rows[:5], 'singles_head': read_tsv(os.path.join(folder, 'feature_singles.tsv'))[1][:4]} if t % 20 == 0 else None)


def shard_after_task(sh, part):
    """Summary of what the real ranking task wrote (the --task all path)."""
    import outrank.task_ranking as tr
    from outrank.task_summary import outrank_task_result_summary
    rng, nprng = sh.rng('task', part), sh.nprng('task', part)
    for run in range(2 if sh.tier == 'quick' else 4):
        cr = pipe.fresh_core_ranking()
        tr.estimate_importances_minibatches = cr.estimate_importances_minibatches
        tr.Pool = lambda *a_, **k_: pipe.SyncPool()
        k, n = rng.randint(3, 6), 600
        header = ['f%d' % i for i in range(k)] + ['label']
        lab = nprng.integers(0, 2, n)
        rows = [['v%d' % (int(lab[i]) if nprng.random() > 0.15 * (c + 1) else int(nprng.integers(0, 3 + c))) for c in range(k)] + ['y%d' % lab[i]] for i in range(n)]
        dpath = os.path.join(sh.scratch, 'data-%d' % run)
        os.makedirs(dpath, exist_ok=True)
        pipe.write_csv(os.path.join(dpath, 'data.csv'), header, rows)
        out_dir = os.path.join(sh.scratch, 'out-%d' % run)
        order = rng.choice([1, 2])
        heuristic = rng.choice(['MI-numba-randomized', 'max-value-coverage'])
        args = pipe.make_args(data_path=dpath, output_folder=out_dir, minibatch_size=200, heuristic=heuristic, target_ranking_only=rng.choice(['True', 'False']),
                              interaction_order=order, combination_number_upper_bound=10 ** 6, tldr=False)
        ok, _ = sh.call('features-once', 'outrank_task_conduct_ranking', tr.outrank_task_conduct_ranking, args)
        if not ok:
            continue
        hdr, trows = read_tsv(os.path.join(out_dir, 'pairwise_ranks.tsv'))
        table = [(r[0], r[1], float(r[2])) for r in trows]
        ok, _ = sh.call('features-once', 'outrank_task_result_summary', outrank_task_result_summary, args)
        if not ok:
            continue
        nontrivial = verify(sh, out_dir, table, 'label', heuristic, order, 'after-ranking-task')
        sh.case(('after-task', part, run), nontrivial, 'after-task/order%d' % order, sample={'heuristic': heuristic, 'order': order, 'triplets': len(table), 'singles': read_tsv(os.path.join(out_dir, 'feature_singles.tsv'))[1][:4]})
