"""C07 - capped combination sampling is fair over any sequence of batches (pre/post-condition monitor on the sampler)."""
from __future__ import annotations

import itertools
import json
import os
from collections import Counter

from vf import core, gen, pipe

PROPERTY = 'C07'
RULE = ('cases = one history of sampler calls: exhaustive duplicate-free lists of m<=5 candidates x all cap sequences in {1..m+1}^L, L<=5 '
        '(quick; m<=6, L<=6 thorough); random histories (m<=300, L<=400; caps fixed / random / oscillating / larger than the list; tuple '
        'arities 2-4; several different lists with disjoint keys interleaved); pipeline histories: 30-200 batches through '
        'mixed_rank_graph in target-only mode with cap < #features, interaction spaces of order 2-3 through compute_combined_features '
        'capped at 1..C(n,k), and end-to-end runs of estimate_importances_minibatches / the ranking task whose exported counts are '
        'compared with the selections the wrapper logged and with the evaluations observed at the worker pool (caps that bind and caps that do not). The wrapper snapshots the counter before each call and compares after. '
        'distinct = (m, cap-sequence hash, origin); non-trivial = some cap is smaller than the list.')
REQUIRED = {'returned-are-candidates': 200, 'exactly-min(cap,m)-distinct': 200, 'least-evaluated-first': 200, 'counter-delta': 200,
            'spread<=1': 200, 'exported-counts=selections': 2, 'reported-counts=evaluations': 20}
EXHAUSTIVE_NOTE = {'quick': 'all cap sequences in {1..m+1}^L for m<=5, L<=5', 'thorough': 'all cap sequences in {1..m+1}^L for m<=6, L<=6'}
ASSUMPTIONS = ['fairness invariants are asserted for duplicate-free candidate lists (pairwise mode offers non-label diagonal pairs twice)',
               'the counter is observed through the module attribute GLOBAL_PRIOR_COMB_COUNTS and through the copies the pipeline exports']
WARM = [{}]
WARM_CODE = 'import outrank.task_ranking'


def plan(tier, seed):
    shards = []
    k = 4 if tier == 'quick' else 12
    for i in range(k):
        shards.append({'name': 'exhaustive-%d' % i, 'fn': 'shard_exhaustive', 'args': {'part': i, 'parts': k}})
    r = 4 if tier == 'quick' else 24
    for i in range(r):
        shards.append({'name': 'random-%d' % i, 'fn': 'shard_random', 'args': {'part': i, 'parts': r}})
    p = 3 if tier == 'quick' else 16
    for i in range(p):
        shards.append({'name': 'pipeline-%d' % i, 'fn': 'shard_pipeline', 'args': {'part': i}})
    shards.append({'name': 'long-history', 'fn': 'shard_long_history', 'args': {}})
    if tier == 'thorough':
        shards.append({'name': 'million-keys', 'fn': 'shard_million_keys', 'args': {}, 'timeout': 3600})
    for i in range(1 if tier == 'quick' else 6):
        shards.append({'name': 'export-%d' % i, 'fn': 'shard_export', 'args': {'part': i}})
    return shards


class TaskPool(pipe.SyncPool):
    """In-process pool that records the combinations actually evaluated."""

    def __init__(self):
        super().__init__()
        self.items = []

    def observe(self, items):
        self.items.extend(items)


def _as_pair(item):
    # a submitted task, whatever wrapping the product gives it (the pair itself, or the pair next to a position / chunk id)
    if isinstance(item, (tuple, list)) and len(item) == 2 and all(isinstance(x, str) for x in item):
        return tuple(item)
    if isinstance(item, (tuple, list)):
        inner = [p for p in (_as_pair(x) for x in item) if p is not None]
        if len(inner) == 1:
            return inner[0]
    return None


def evaluated_pairs(pool, out_rows, keys):
    """Which candidates were actually evaluated in a call: the tasks submitted to the pool when they can be read as column pairs,
    otherwise the rows that came back (each evaluation of candidate (a, b) yields one row (a, b, s) and its mirror)."""
    pairs = [_as_pair(it) for it in pool.items]
    if pool.items and all(p is not None for p in pairs):
        return Counter(pairs)
    rows = Counter((a, b) for a, b, _ in out_rows)
    ev = Counter()
    for k in keys:
        if len(k) == 2 and rows.get(tuple(k)):
            ev[tuple(k)] = rows[tuple(k)] // (2 if k[0] == k[1] else 1)
    return ev


class SamplerMonitor:
    """Wraps core_ranking.prior_combinations_sample: snapshot-before / compare-after, plus the logged selection history."""

    def __init__(self, sh, cr):
        self.sh, self.cr = sh, cr
        self.real = cr.prior_combinations_sample
        self.selections = Counter()          # reference state: how often each key was actually selected
        self.owner = {}                      # key -> id of the (stable, duplicate-free) candidate set it was first offered in
        self.list_ids = {}
        self.calls = 0
        cr.prior_combinations_sample = self

    def counter(self):
        return self.cr.GLOBAL_PRIOR_COMB_COUNTS

    def reset_history(self):
        """Start a new history from the state of a fresh process (keeps the snapshots small)."""
        self.counter().clear()
        self.owner.clear()
        self.list_ids.clear()

    def __call__(self, combinations, args):
        sh = self.sh
        offered = list(combinations)
        cap = args.combination_number_upper_bound
        before = dict(self.counter())
        args_before = dict(vars(args)) if hasattr(args, '__dict__') else None
        out = self.real(combinations, args)
        after = dict(self.counter())
        if isinstance(combinations, list):
            sh.check('returned-are-candidates', combinations == offered, 'sampler-modified-the-candidate-list-it-was-given', lambda: {'before': offered[:20], 'after': list(combinations)[:20]})
        if args_before is not None:
            sh.check('returned-are-candidates', dict(vars(args)) == args_before, 'sampler-modified-the-args-object', lambda: {'cap_before': repr(args_before.get('combination_number_upper_bound')), 'cap_after': repr(getattr(args, 'combination_number_upper_bound', None))})
        self.calls += 1
        out = list(out)
        wit = lambda **kw: dict(kw, offered=offered[:60], cap=cap, returned=out[:60], before={str(k): before.get(k, 0) for k in offered[:60]},  # noqa: E731
                                after={str(k): after.get(k, 0) for k in offered[:60]})
        off_ms, out_ms = Counter(offered), Counter(out)
        sh.check('returned-are-candidates', all(out_ms[k] <= off_ms.get(k, 0) for k in out_ms), 'returned-element-not-offered', wit)
        dupfree = len(off_ms) == len(offered)
        sh.check('exactly-min(cap,m)-distinct', len(out) == min(cap, len(offered)) and (not dupfree or len(out_ms) == len(out)), 'wrong-number-of-selected-candidates', wit)
        # least evaluated first (prior counts; unseen keys count 0)
        if out and len(out) < len(offered):
            unselected = off_ms - out_ms
            if unselected:
                worst_sel = max(before.get(k, 0) for k in out_ms)
                best_unsel = min(before.get(k, 0) for k in unselected)
                sh.check('least-evaluated-first', worst_sel <= best_unsel, 'selected-a-more-evaluated-candidate', lambda: wit(worst_selected=worst_sel, best_unselected=best_unsel))
        else:
            sh.ok('least-evaluated-first')
        # counter delta: +multiplicity on the selected keys, nothing else changes (new keys may appear with 0)
        bad = {}
        for k in set(before) | set(after) | set(out_ms):       # also a selected key the counter does not know at all
            d = after.get(k, 0) - before.get(k, 0)
            if d != out_ms.get(k, 0):
                bad[str(k)] = d
        sh.check('counter-delta', not bad, 'counter-changed-other-than-plus-one-on-selected', lambda: wit(unexpected_deltas=dict(list(bad.items())[:10])))
        self.selections.update(out)
        # spread over a stable duplicate-free list
        if dupfree and offered:
            key = self.list_ids.setdefault(frozenset(offered), len(self.list_ids))      # small integer id of this candidate set
            overlapping = False
            for k in offered:
                if self.owner.setdefault(k, key) != key:
                    overlapping = True
            vals = [after.get(k, 0) for k in offered]
            if not overlapping:
                sh.check('spread<=1', max(vals) - min(vals) <= 1, 'evaluation-counts-differ-by-more-than-one', lambda: wit(counts=vals[:60]))
        return out


def shard_exhaustive(sh, part, parts):
    cr = pipe.fresh_core_ranking()
    mon = SamplerMonitor(sh, cr)
    mmax, lmax = (5, 5) if sh.tier == 'quick' else (6, 6)
    hid = 0
    jobs = []
    for m in range(1, mmax + 1):
        for L in range(1, lmax + 1):
            if sh.tier == 'thorough' and m == 6 and L == 6:
                continue  # 7^6 sequences: sampled in the random shard instead
            jobs.append((m, L))
    for m, L in jobs:
        seqs = list(itertools.product(range(1, m + 2), repeat=L))
        for caps in gen.chunks(seqs, parts)[part]:
            hid += 1
            mon.reset_history()
            cand = [('h%d-%d-%d' % (part, hid, i), 'label') if (i + hid) % 2 else ('label', 'h%d-%d-%d' % (part, hid, i)) for i in range(m)]
            for cap in caps:
                mon(list(cand), pipe.make_args(combination_number_upper_bound=cap))
            sh.case((m, caps), any(c < m for c in caps), 'exhaustive-m%d' % m, sample={'candidates': m, 'caps': caps, 'final_counts': [mon.counter()[k] for k in cand]} if hid % 3000 == 1 else None)
    sh.notes['sampler_calls'] = mon.calls


def shard_random(sh, part, parts):
    cr = pipe.fresh_core_ranking()
    mon = SamplerMonitor(sh, cr)
    rng = sh.rng('rnd', part)
    reps = 60 if sh.tier == 'quick' else 1500
    for h in range(reps):
        mon.reset_history()
        nlists = rng.choice([1, 1, 2, 3])
        lists = []
        for li in range(nlists):
            m = rng.choice([1, 2, 3, 7, 20, 50, 300]) if h % 2 else rng.randint(1, 40)
            arity = rng.choice([2, 2, 3, 4])
            lists.append([tuple(rng.sample(['r%d-%d-%d-%d-%d' % (part, h, li, i, j) for j in range(arity)], arity)) for i in range(m)])
        L = rng.choice([3, 10, 40, 400]) if max(len(x) for x in lists) <= 50 else rng.choice([3, 10, 40])
        style = rng.choice(['fixed', 'random', 'oscillating', 'above'])
        caps = []
        fixed = None
        for step in range(L):
            li = rng.randrange(nlists)
            lst = lists[li]
            m = len(lst)
            if style == 'fixed':
                fixed = fixed or rng.randint(1, m)
                cap = fixed
            elif style == 'random':
                cap = rng.randint(1, m + 2)
            elif style == 'oscillating':
                cap = 1 if step % 2 else max(1, m - 1)
            else:
                cap = m + rng.randint(0, 5)
            caps.append(cap)
            offered = list(lst)
            if rng.random() < 0.3:
                rng.shuffle(offered)  # same candidates, another order
            if rng.random() < 0.25:
                import numpy as np
                cap = rng.choice([np.int64, np.int32, np.intp])(cap)      # a cap computed from data is a numpy integer
            mon(offered, pipe.make_args(combination_number_upper_bound=cap))
        sh.case(([len(x) for x in lists], core.h64(caps), style), any(c < len(lists[0]) for c in caps), 'random/' + style,
                sample={'list_sizes': [len(x) for x in lists], 'caps_head': caps[:12], 'style': style} if h % 25 == 0 else None)
    sh.notes['sampler_calls'] = mon.calls


def shard_pipeline(sh, part):
    """Histories produced by the real callers of the sampler (module attribute is looked up at call time)."""
    import pandas as pd
    cr = pipe.fresh_core_ranking()
    mon = SamplerMonitor(sh, cr)
    rng, nprng = sh.rng('pipe', part), sh.nprng('pipe', part)
    # (a) many batches through mixed_rank_graph, target-only, cap < #features
    nfeat = rng.choice([5, 9, 17])
    cols = ['f%d' % i for i in range(nfeat)] + ['label']
    if part % 2:
        cols = ['label'] + ['f%d' % i for i in range(nfeat)]      # pairs come out as ('label', f): not in sorted order
    batches = 30 if sh.tier == 'quick' else 600
    cap = rng.randint(1, nfeat)
    total_evaluated = Counter()
    for b in range(batches):
        if rng.random() < 0.25:
            cap = rng.randint(1, nfeat + 3)     # includes caps that do not bind (list size is nfeat + 1)
        df = pd.DataFrame({c: ['v%d' % v for v in nprng.integers(0, 3, 24)] for c in cols})
        if rng.random() < 0.4:
            df[rng.choice(cols)] = ''            # a sparse field that is empty for this whole batch
        args = pipe.make_args(heuristic=rng.choice(['Constant', 'max-value-coverage', 'MI-numba-randomized']), target_ranking_only='True', combination_number_upper_bound=cap)
        before = Counter(cr.GLOBAL_PRIOR_COMB_COUNTS)
        pool = TaskPool()
        ok, out = sh.call('returned-are-candidates', 'mixed_rank_graph', cr.mixed_rank_graph, df, args, pool, pipe.NullPbar())
        if ok:
            evaluated = evaluated_pairs(pool, out.triplet_scores, list(cr.GLOBAL_PRIOR_COMB_COUNTS)) if args.heuristic != 'Constant' else Counter((a, b_) for a, b_, _ in out.triplet_scores)
            total_evaluated.update(evaluated)
            after = Counter(cr.GLOBAL_PRIOR_COMB_COUNTS)
            delta = {k: after[k] - before.get(k, 0) for k in after if after[k] - before.get(k, 0)}
            sh.check('reported-counts=evaluations', delta == dict(evaluated), 'reported-count-delta!=pairs-evaluated-in-this-batch',
                     lambda: {'batch': b, 'cap': cap, 'candidates': nfeat + 1, 'evaluated': {str(k): v for k, v in evaluated.items()}, 'count_delta': {str(k): v for k, v in delta.items()}})
    sh.check('reported-counts=evaluations', {k: v for k, v in cr.GLOBAL_PRIOR_COMB_COUNTS.items() if v} == dict(total_evaluated), 'reported-counts!=evaluations-over-history',
             lambda: {'reported': {str(k): v for k, v in cr.GLOBAL_PRIOR_COMB_COUNTS.items()}, 'evaluated': {str(k): v for k, v in total_evaluated.items()}})
    sh.case(('mixed_rank_graph-history', nfeat, batches, part), True, 'pipeline/mixed_rank_graph', sample={'features': nfeat, 'batches': batches, 'last_cap': cap,
            'counts': {str(k): v for k, v in list(cr.GLOBAL_PRIOR_COMB_COUNTS.items())[:8]}})
    # (b) interaction spaces through compute_combined_features
    cr = pipe.fresh_core_ranking()
    mon = SamplerMonitor(sh, cr)
    for order in (2, 3):
        n = rng.choice([4, 5, 6])
        cols = ['g%d_%d' % (order, i) for i in range(n)] + ['label']
        import math
        space = math.comb(n, order)
        for b in range(12 if sh.tier == 'quick' else 60):
            cap = rng.randint(1, space + 1)
            df = pd.DataFrame({c: ['v%d' % v for v in nprng.integers(0, 3, 10)] for c in cols})
            args = pipe.make_args(interaction_order=order, combination_number_upper_bound=cap)
            ok, out = sh.call('returned-are-candidates', 'compute_combined_features', cr.compute_combined_features, df, args, pipe.NullPbar())
            if ok:
                sh.check('exactly-min(cap,m)-distinct', out.shape[1] - df.shape[1] == min(cap, space), 'number-of-interaction-columns!=min(cap,C(n,k))',
                         lambda: {'order': order, 'n': n, 'cap': cap, 'added': out.shape[1] - df.shape[1], 'columns': list(out.columns)})
        sh.case(('combined-features-history', order, n, part), True, 'pipeline/compute_combined_features-order%d' % order)
    sh.notes['sampler_calls'] = mon.calls


def shard_export(sh, part):
    """Exported counts (returned copy and combination_estimation_counts.json) = number of times each key was selected."""
    import outrank.task_ranking as tr
    rng, nprng = sh.rng('exp', part), sh.nprng('exp', part)
    for run in range(4 if sh.tier == 'quick' else 8):
        cr = pipe.fresh_core_ranking()
        mon = SamplerMonitor(sh, cr)
        nfeat = rng.choice([4, 7])
        rows = rng.choice([260, 500])
        bs = rng.choice([40, 60])
        header = ['f%d' % i for i in range(nfeat)] + ['label']
        data = [['v%d' % v for v in nprng.integers(0, 3, nfeat + 1)] for _ in range(rows)]
        dpath = os.path.join(sh.scratch, 'data-%d' % run)
        os.makedirs(dpath, exist_ok=True)
        pipe.write_csv(os.path.join(dpath, 'data.csv'), header, data)
        out_dir = os.path.join(sh.scratch, 'out-%d' % run)
        cap = rng.randint(1, nfeat) if run < 2 else rng.choice([nfeat + 1, nfeat + 5, 10 ** 6])   # binding and non-binding caps
        args = pipe.make_args(data_path=dpath, output_folder=out_dir, minibatch_size=bs, combination_number_upper_bound=cap,
                              heuristic='max-value-coverage', interaction_order=1, target_ranking_only='True')
        pool = TaskPool()
        if run % 2 == 0:
            # library level: the copy returned by estimate_importances_minibatches
            info = tr.get_dataset_info(args)
            ok, res = sh.call('exported-counts=selections', 'estimate_importances_minibatches', cr.estimate_importances_minibatches,
                              input_file=info.data_path, column_descriptions=info.column_names, fw_col_mapping=info.fw_map, numeric_column_types=info.column_types,
                              batch_size=bs, args=args, data_encoding=info.encoding, cpu_pool=pool, delimiter=info.col_delimiter, logger=pipe.ListLogger())
            if not ok:
                continue
            exported = {str(k): v for k, v in res[7].items()}
        else:
            # task level: combination_estimation_counts.json (the task uses the functions of the reloaded module through its globals)
            tr.Pool = lambda *a_, **k_: pool
            tr.estimate_importances_minibatches = cr.estimate_importances_minibatches
            ok, _ = sh.call('exported-counts=selections', 'outrank_task_conduct_ranking', tr.outrank_task_conduct_ranking, args)
            if not ok:
                continue
            with open(os.path.join(out_dir, 'combination_estimation_counts.json')) as f:
                exported = json.load(f)
        logged = {str(k): v for k, v in mon.selections.items()}
        nz = {k: v for k, v in exported.items() if v}
        sh.check('exported-counts=selections', nz == {k: v for k, v in logged.items() if v} and mon.calls > 0, 'exported-counts!=selections-made',
                 lambda: {'exported': dict(list(exported.items())[:20]), 'logged': dict(list(logged.items())[:20]), 'calls': mon.calls})
        pairs = [_as_pair(it) for it in pool.items]
        if pairs and all(p_ is not None for p_ in pairs):
            evaluated = {str(k): v for k, v in Counter(pairs).items()}
            sh.check('reported-counts=evaluations', nz == evaluated and len(evaluated) > 0, 'exported-counts!=pairs-actually-evaluated',
                     lambda: {'cap': cap, 'candidates': nfeat + 1, 'exported': dict(list(nz.items())[:20]), 'evaluated_at_pool': dict(list(evaluated.items())[:20])})
        else:
            sh.notes['pool_tasks_unreadable'] = 'the tasks submitted to the pool could not be read as column pairs: exported counts compared with the logged selections only'
        sh.case(('export', run, part, nfeat, rows, bs), True, 'export/' + ('returned-copy' if run % 2 == 0 else 'json-file'),
                sample={'rows': rows, 'batch': bs, 'features': nfeat, 'sampler_calls': mon.calls, 'exported_head': dict(list(exported.items())[:5])})


def shard_long_history(sh):
    """More than 2^16 batches over a stable list, then a late joiner (a new constructed column): the newcomer has count 0 and must
    be preferred; counts above 65535 must still order candidates correctly."""
    cr = pipe.fresh_core_ranking()
    mon = SamplerMonitor(sh, cr)
    real = mon.real
    base = [('feature_%d' % i, 'label') for i in range(4)]
    n_batches = 2 ** 16          # exactly: every veteran is 65536 evaluations ahead of a newcomer
    args_all = pipe.make_args(combination_number_upper_bound=len(base))
    # the bulk of the history goes through the real sampler without the (slower) monitor; every 4096th call is monitored
    for b in range(n_batches):
        if b % 4096 == 0:
            mon(list(base), args_all)
        else:
            real(list(base), args_all)
            mon.selections.update(base)
    late = ('MULTIEX-tags-rare_value', 'label')
    cand = base + [late]                  # the newcomer comes last in list order
    for cap in (1, 1, 2, 3):
        mon(list(cand), pipe.make_args(combination_number_upper_bound=cap))
    late2 = ('SUBFEATURE-x&y', 'label')
    cand = base[:1] + [late2] + base[1:] + [late]
    # a second regime: counts far apart by more than 2^16 within one list
    for cap in (1, 4, 5):
        mon(list(cand), pipe.make_args(combination_number_upper_bound=cap))
    sh.case(('long-history', n_batches), True, 'long-history(>2^16 batches)+late-joiner', sample={'batches': n_batches, 'counts': {str(k): cr.GLOBAL_PRIOR_COMB_COUNTS[k] for k in cand}})


def shard_million_keys(sh):
    """More than 2^20 tracked combinations shared by two alternating candidate lists (interaction space of ~1500 columns and the
    pair list of a batch): the history of one list must survive calls for the other."""
    cr = pipe.fresh_core_ranking()
    mon = SamplerMonitor(sh, cr)
    k = 1500
    big = [('c%d' % i, 'c%d' % j) for i in range(k) for j in range(i + 1, k)]          # 1,124,250 pairs
    small = [('c%d' % i, 'label') for i in range(20)]
    for step in range(3):
        mon(big, pipe.make_args(combination_number_upper_bound=1000))
        mon(list(small), pipe.make_args(combination_number_upper_bound=7))
    sh.case(('million-keys', len(big)), True, 'more-than-2^20-tracked-combinations', sample={'tracked': len(cr.GLOBAL_PRIOR_COMB_COUNTS), 'big_list': len(big)})
