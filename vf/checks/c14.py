"""C14 - cardinality sketch: exact while warm, within 2% beyond, duplicate-blind (shadow-set invariant on every add)."""
from __future__ import annotations

from vf import core, gen, pipe

PROPERTY = 'C14'
RULE = ('cases = one insertion sequence into HyperLogLogWCache, observed through a wrapper that maintains a shadow set and compares len() at '
        'sampled prefixes (every prefix for short sequences; every 2^k-th prefix and every prefix within +-6 of 2^18 for long ones): '
        'strings and 8-hex-digit hashes; orders increasing / shuffled / Zipf-duplicated / each value twice / seen values re-added exactly at, '
        'just before and after the warm-up boundary / replay of all seen values after the switch; sizes 0..5000 (many), 2^18+-5, 2^19 '
        '(quick), 2^20 and 2^21 (thorough); also the sketches core_ranking.compute_cardinalities creates. distinct = (order class, value '
        'kind, final distinct count); non-trivial = the sequence crosses 2^18 distinct values or contains duplicates.')
REQUIRED = {'exact-while-warm': 500, 'within-2pct': 10, 'duplicate-blind': 200, 'order-independent': 20, 'boundary-crossed': 1}
ASSUMPTIONS = ['2% bound: linear counting with 2^19 registers has relative sd 0.1% at 2^18 and 0.24% at 2^21 distinct values (> 8 sigma margin)']
WARM = None

WARMUP = 1 << 18


def plan(tier, seed):
    shards = []
    for i in range(4 if tier == 'quick' else 24):
        shards.append({'name': 'small-%d' % i, 'fn': 'shard_small', 'args': {'part': i}})
    shards.append({'name': 'boundary-strings', 'fn': 'shard_boundary', 'args': {'kind': 'str', 'upto': 1 << 19}})
    shards.append({'name': 'boundary-hashes', 'fn': 'shard_boundary', 'args': {'kind': 'hex', 'upto': (1 << 18) + 4000}})
    shards.append({'name': 'boundary-digits8', 'fn': 'shard_boundary', 'args': {'kind': 'digits8', 'upto': 300000}})
    shards.append({'name': 'boundary-bytes', 'fn': 'shard_boundary', 'args': {'kind': 'bytes', 'upto': (1 << 18) + 30000}})
    shards.append({'name': 'digest-collisions', 'fn': 'shard_collisions', 'args': {}})
    shards.append({'name': 'boundary-dup-trigger', 'fn': 'shard_dup_trigger', 'args': {}})
    shards.append({'name': 'pipeline', 'fn': 'shard_pipeline', 'args': {}})
    if tier == 'thorough':
        for i, upto in enumerate([1 << 20, 1 << 20] + [1 << 21] * 8):
            shards.append({'name': 'large-%d' % i, 'fn': 'shard_boundary', 'args': {'kind': 'str' if i % 2 else 'hex', 'upto': upto, 'salt': i}, 'timeout': 3600})
    return shards


class Monitored:
    """Wraps one sketch; every add goes through ``add`` which also maintains the shadow set."""

    def __init__(self, sh, sketch, label):
        self.sh, self.s, self.label = sh, sketch, label
        self.shadow = set()
        self.n_adds = 0
        self.crossed = False

    def add(self, v, check=False):
        seen = v in self.shadow
        before = len(self.s) if (check and seen) else None
        self.s.add(v)
        self.shadow.add(v)
        self.n_adds += 1
        if before is not None:
            after = len(self.s)
            self.sh.check('duplicate-blind', after == before, 're-adding-a-seen-value-changed-the-size',
                          lambda: {'sequence': self.label, 'value': v, 'before': before, 'after': after, 'distinct': len(self.shadow), 'adds': self.n_adds})
        if check:
            self.check()

    def check(self):
        D = len(self.shadow)
        got = len(self.s)
        if D <= WARMUP:
            self.sh.check('exact-while-warm', got == D, 'size!=distinct-count-in-exact-range', lambda: {'sequence': self.label, 'distinct': D, 'len': got, 'adds': self.n_adds})
        else:
            self.crossed = True
            if D <= (1 << 21):
                self.sh.check('within-2pct', abs(got - D) <= 0.02 * D, 'estimate-off-by-more-than-2pct', lambda: {'sequence': self.label, 'distinct': D, 'len': got, 'error_pct': 100.0 * (got - D) / D})


def _cls():
    from outrank.algorithms.sketches.counting_ultiloglog import HyperLogLogWCache
    return HyperLogLogWCache


def value(kind, i, salt=0):
    if kind == 'str':
        return 'v%d_%d' % (salt, i)
    if kind == 'digits8':            # structured strings that merely LOOK like 32-bit hex digests
        return '%08d' % (i + salt * 1000003)
    if kind == 'bytes':              # non-str values are hashed through bytes(value)
        import hashlib
        return hashlib.blake2b(('%d:%d' % (salt, i)).encode(), digest_size=8).digest()
    import xxhash
    return xxhash.xxh32(('%d:%d' % (salt, i)).encode(), seed=20141025).hexdigest()


def shard_small(sh, part):
    H = _cls()
    rng, nprng = sh.rng('small', part), sh.nprng('small', part)
    reps = 60 if sh.tier == 'quick' else 200
    for t in range(reps):
        kind = rng.choice(['str', 'hex', 'mixed-types', 'digits8', 'bytes'])
        n = rng.choice([0, 1, 2, 5, 30, 200, 1000, 5000])
        order = rng.choice(['increasing', 'shuffled', 'zipf', 'each-twice', 'blocks-replayed'])
        ids = list(range(n))
        if order == 'shuffled':
            rng.shuffle(ids)
        elif order == 'zipf' and n:
            ids = [int(x) % n for x in nprng.zipf(1.4, 2 * n)]
        elif order == 'each-twice':
            ids = [i for i in ids for _ in (0, 1)]
        elif order == 'blocks-replayed':
            ids = ids + ids[:n // 2] + ids
        mk = (lambda i: value('str' if i % 2 else 'hex', i, part)) if kind == 'mixed-types' else (lambda i: value(kind, i, part))
        m = Monitored(sh, H(0.02), '%s/%s/n=%d' % (kind, order, n))
        m.check()
        step = 1 if len(ids) <= 300 else rng.choice([7, 53])
        for j, i in enumerate(ids):
            m.add(mk(i), check=(j % step == 0))
        m.check()
        # order independence in the exact range: same set, reversed order
        m2 = H(0.02)
        for i in reversed(ids):
            m2.add(mk(i))
        sh.check('order-independent', len(m2) == len(m.s), 'size-depends-on-insertion-order', lambda: {'order': order, 'n': n, 'len_forward': len(m.s), 'len_reversed': len(m2)})
        sh.case((order, kind, len(m.shadow)), order in ('zipf', 'each-twice', 'blocks-replayed') and n > 1, 'small/' + order,
                sample={'order': order, 'kind': kind, 'adds': len(ids), 'distinct': len(m.shadow), 'len': len(m.s), 'first_values': [mk(i) for i in ids[:4]]} if t % 20 == 0 else None)


def shard_boundary(sh, kind, upto, salt=0):
    """One long sequence across the warm-up boundary with duplicates injected everywhere around it."""
    H = _cls()
    rng = sh.rng('boundary', kind, upto, salt)
    m = Monitored(sh, H(0.02), '%s/boundary/upto=%d' % (kind, upto))
    pow2 = 1
    i = 0
    while len(m.shadow) < upto:
        D = len(m.shadow)
        near = abs(D - WARMUP) <= 6
        do_check = near or D == pow2 or (D > WARMUP and D % 65536 == 0)
        if D == pow2:
            pow2 *= 2
        m.add(value(kind, i, salt), check=do_check)
        i += 1
        if near or (do_check and D > 0):
            # re-add seen values: the first one, the most recent one, a random one
            for j in (0, i - 1, rng.randrange(i)):
                m.add(value(kind, j, salt), check=True)
    # after the switch: replay a slice of seen values, the size must not move at all
    before = len(m.s)
    for j in rng.sample(range(i), min(i, 20000)):
        m.add(value(kind, j, salt))
    after = len(m.s)
    sh.check('duplicate-blind', before == after, 'replaying-seen-values-changed-the-size', lambda: {'sequence': m.label, 'before': before, 'after': after, 'distinct': len(m.shadow)})
    m.check()
    if m.crossed:
        sh.ok('boundary-crossed')
    sh.case(('boundary', kind, upto, salt), True, 'boundary/upto=2^%d' % (upto.bit_length() - 1),
            sample={'kind': kind, 'distinct': len(m.shadow), 'adds': m.n_adds, 'final_len': len(m.s), 'error_pct': round(100.0 * (len(m.s) - len(m.shadow)) / len(m.shadow), 4)})


def shard_dup_trigger(sh):
    """Exactly 2^18 distinct values, then duplicates only (must stay exact), then one new value (estimate within 2%)."""
    H = _cls()
    for kind in ('str', 'hex'):
        m = Monitored(sh, H(0.02), kind + '/full-warm-up-then-duplicates')
        vals, seen, i = [], set(), 0
        while len(vals) < WARMUP + 2:            # distinct values (32-bit digests may repeat)
            v = value(kind, i, 7)
            i += 1
            if v not in seen:
                seen.add(v)
                vals.append(v)
        for j in range(WARMUP):
            m.add(vals[j], check=(j >= WARMUP - 3))
        for j in (0, WARMUP - 1, 12345, 0):
            m.add(vals[j], check=True)
        m.check()
        m.add(vals[WARMUP], check=True)           # the first genuinely new value switches to the estimate
        m.add(vals[5], check=True)
        m.add(vals[WARMUP], check=True)
        m.add(vals[WARMUP + 1], check=True)
        if m.crossed:
            sh.ok('boundary-crossed')
        sh.case(('dup-trigger', kind), True, 'boundary/duplicate-at-full-warm-up', sample={'kind': kind, 'distinct': len(m.shadow), 'len': len(m.s)})


def shard_pipeline(sh):
    """The sketches the pipeline itself creates (compute_cardinalities), observed through a monitoring subclass."""
    import pandas as pd
    cr = pipe.fresh_core_ranking()
    Base = cr.HyperLogLog
    sh_ = sh
    created = []

    class MonHLL(Base):
        def __init__(self, *a, **k):
            super().__init__(*a, **k)
            self._shadow = set()
            created.append(self)

        def add(self, v):
            super().add(v)
            self._shadow.add(v)
            D = len(self._shadow)
            if D <= WARMUP:
                sh_.check('exact-while-warm', len(self) == D, 'pipeline-sketch-size!=distinct-count', lambda: {'distinct': D, 'len': len(self)})
    cr.HyperLogLog = MonHLL
    rng, nprng = sh.rng('pipe'), sh.nprng('pipe')
    seen = {}
    for b in range(6 if sh.tier == 'quick' else 30):
        n = rng.choice([50, 400, 3000])
        df = pd.DataFrame({'a': ['v%d' % v for v in nprng.integers(0, 40, n)], 'b': ['id%d' % v for v in nprng.integers(0, 100000, n)], 'c': [rng.choice(['', 'x', 'y']) for _ in range(n)],
                           'd': ['v%d' % v for v in nprng.integers(0, 60, n)], 'e': [rng.choice(['x', 'y', 'v1', 'id5']) for _ in range(n)]})   # d, e share values with a, b, c
        cr.compute_cardinalities(df, pipe.NullPbar(), 30000)
        for c in df.columns:
            seen.setdefault(c, set()).update(v for v in df[c] if v)
            sh.check('exact-while-warm', len(cr.GLOBAL_CARDINALITY_STORAGE[c]) == len(seen[c]), 'pipeline-cardinality!=distinct-non-empty-values',
                     lambda: {'column': c, 'batch': b, 'len': len(cr.GLOBAL_CARDINALITY_STORAGE[c]), 'distinct': len(seen[c])})
        sh.case(('pipeline', b, n), b > 0, 'pipeline', sample={'batch': b, 'rows': n, 'cardinalities': {c: len(cr.GLOBAL_CARDINALITY_STORAGE[c]) for c in df.columns}} if b == 2 else None)
    sh.notes['sketches_created_by_pipeline'] = len(created)


def shard_collisions(sh):
    """Distinct strings whose 32-bit digests coincide (under the sketch's own hash seed and under the pipeline's): exact while warm means
    both are counted."""
    H = _cls()
    for seed in (19, 20141025):
        pairs = gen.xxh32_colliding_pairs(seed, want=3, prefix='user_')
        for (a, b) in pairs:
            m = Monitored(sh, H(0.02), 'colliding-digests(seed %d)' % seed)
            for v in ('x', a, 'y', b, a, b, 'z'):
                m.add(v, check=True)
            sh.case(('collision', seed, a, b), True, 'digest-collision', sample={'values_with_equal_32bit_digest': [a, b], 'hash_seed': seed, 'len': len(m.s), 'distinct': len(m.shadow)})
