"""C08 - streaming = reference batch semantics + per-pair median + checkpoint after every batch.

Invariant-at-a-hook monitor: core_ranking.compute_batch_ranking is wrapped; the wrapper copies the rows of every batch it is
handed, reads the checkpoint file left by the previous batch *before* delegating, and records the triplets returned. An
independent reader of the input file predicts the batches; statistics.median predicts the aggregation.
"""
from __future__ import annotations

import csv
import gzip
import os
import re
import statistics

from vf import core, gen, pipe

PROPERTY = 'C08'
RULE = ('cases = one streaming run over a generated CSV file: exhaustive (rows<=12, batch size<=5, subsampling<=3, every single-row '
        'corruption position and kind incl. none) and boundary-targeted files with row counts k*B+t, t in {0,1,1023,1024,1025,B-1}, '
        'B in {1,7,64,1024,1025,1500,4096}, subsampling in {1,2,3,7,10}, malformed rows (short, long, empty, unclosed quote, quote swallowing a delimiter; quoted commas '
        'as valid rows) at the first/last position of a batch, just before EOF and in runs; plain and .gz input; 3-6 columns; library '
        'level (estimate_importances_minibatches), task level (outrank_task_conduct_ranking) and command-line level (outrank.__main__.main) -> pairwise_ranks.tsv. distinct = (rows, '
        'B, subsampling, #invalid, invalid positions, level); non-trivial = at least 2 batches, or a tail decision within +-1 of 1024. '
        'Aggregation shards: get_grouped_df and the checkpoint writer on synthetic score histories (pairs missing from batches, undefined = NaN '
        'scores in some or all batches of a pair, ties, infinities, magnitudes 1e-12..1e15, duplicate rows), checked after every batch.')
REQUIRED = {'batches=model': 50, 'median-aggregation': 50, 'checkpoint-after-each-batch': 50, 'invalid-count': 20, 'tsv-sorted-ascending': 2, 'tail-rule': 4}
EXHAUSTIVE_NOTE = {'quick': 'rows<=12 x batch<=5 x subsampling<=3 x every single corrupted row position x 3 corruption kinds',
                   'thorough': 'rows<=16 x batch<=6 x subsampling<=3 x every single corrupted row position x 3 corruption kinds, plus every pair of corrupted positions for rows<=9'}
ASSUMPTIONS = ['scoring heuristics only: with the Constant heuristic the product writes no checkpoint for full batches (rare-value / summary tasks produce no ranking)',
               'cells contain no line breaks; Python csv semantics define the field count of a row', 'row positions count data rows (the header is line 0)']
WARM = [{}]
WARM_CODE = 'import outrank.task_ranking'


def plan(tier, seed):
    shards = []
    k = 6 if tier == 'quick' else 12
    for i in range(k):
        shards.append({'name': 'exhaustive-%d' % i, 'fn': 'shard_exhaustive', 'args': {'part': i, 'parts': k}})
    b = 6 if tier == 'quick' else 14
    for i in range(b):
        shards.append({'name': 'boundary-%d' % i, 'fn': 'shard_boundary', 'args': {'part': i, 'parts': b}})
    for i in range(2 if tier == 'quick' else 12):
        shards.append({'name': 'task-%d' % i, 'fn': 'shard_task', 'args': {'part': i}})
    for i in range(2 if tier == 'quick' else 8):
        shards.append({'name': 'aggregation-%d' % i, 'fn': 'shard_aggregation', 'args': {'part': i}})
    return shards


# ---------------------------------------------------------------------------------------------
def model_batches(text, ncols, B, sub):
    """Independent reader: returns (list of batches of parsed rows, tail rows, invalid count)."""
    lines = text.split('\n')
    if lines and lines[-1] == '':
        lines.pop()
    data = lines[1:]
    batches, cur, invalid = [], [], 0
    for pos, line in enumerate(data, start=1):
        if pos % sub != 0:
            continue
        parsed = next(csv.reader([line + '\n']), [])
        if len(parsed) == ncols:
            cur.append(parsed)
        else:
            invalid += 1
        if len(cur) >= B:
            batches.append(cur)
            cur = []
    tail_used = len(cur) > 1024
    if tail_used:
        batches.append(cur[:B])
    return batches, len(cur), tail_used, invalid


class Med(float):
    """Median of the defined per-batch scores of a pair; .undefined says that some batch gave no defined score (NaN) for it.  A pair
    whose batches all gave NaN has the value NaN.  For a pair with undefined batches the aggregate may skip them (what the frame
    library does) or be undefined itself - nothing else is a median of those scores."""
    undefined = False


def median_table(triplet_batches):
    per = {}
    for tb in triplet_batches:
        for a, b, s in tb:
            per.setdefault((a, b), []).append(float(s))
    out = {}
    for k, v in per.items():
        fin = [x for x in v if x == x]
        m = Med(statistics.median(fin) if fin else float('nan'))
        m.undefined = len(fin) != len(v)
        out[k] = m
    return out


def read_checkpoint(path):
    if not os.path.exists(path):
        return None
    out = {}
    with open(path, newline='') as f:
        r = csv.reader(f, delimiter='\t')
        header = next(r, None)
        if header is None:
            return {}
        ia, ib, isc = header.index('FeatureA'), header.index('FeatureB'), header.index('Score')
        for row in r:
            out[(row[ia], row[ib])] = float(row[isc]) if row[isc] != '' else float('nan')      # an undefined score is written as an empty cell
    return out


def same_table(got, exp):
    if got is None or set(got) != set(exp):
        return False
    for k, v in exp.items():
        g = got[k]
        if g != g and (v != v or getattr(v, 'undefined', False)):
            continue
        if g != g or v != v or (abs(g - v) > 1e-12 + 1e-12 * abs(v) and g != v):
            return False
    return True


class Recorder:
    def __init__(self, cr, cwd):
        self.cr, self.cwd = cr, cwd
        self.batches_in, self.triplets, self.checkpoint_before = [], [], []
        self.checkpoint_calls = 0
        real = cr.compute_batch_ranking
        real_cp = cr.checkpoint_importances_df

        def hooked(line_tmp_storage, *a, **k):
            self.batches_in.append([list(r) for r in line_tmp_storage])
            self.checkpoint_before.append(read_checkpoint(os.path.join(self.cwd, 'ranking_checkpoint_tmp.tsv')))
            out = real(line_tmp_storage, *a, **k)
            self.triplets.append([(x[0], x[1], float(x[2])) for x in out[0].triplet_scores])
            return out

        def hooked_cp(*a, **k):
            self.checkpoint_calls += 1
            return real_cp(*a, **k)
        cr.compute_batch_ranking = hooked
        cr.checkpoint_importances_df = hooked_cp


def run_library(sh, text, header, B, sub, heuristic, gz, tag):
    """One run of estimate_importances_minibatches under the recorder; returns observations."""
    cr = pipe.fresh_core_ranking()
    cwd = os.getcwd()
    cp = os.path.join(cwd, 'ranking_checkpoint_tmp.tsv')
    if os.path.exists(cp):
        os.remove(cp)
    path = os.path.join(cwd, 'in-%s.csv%s' % (tag, '.gz' if gz else ''))
    if gz:
        with gzip.open(path, 'wt', encoding='utf-8', newline='') as f:
            f.write(text)
    else:
        with open(path, 'w', encoding='utf-8', newline='') as f:
            f.write(text)
    rec = Recorder(cr, cwd)
    lg = pipe.ListLogger()
    args = pipe.make_args(minibatch_size=B, subsampling=sub, heuristic=heuristic, target_ranking_only='False', combination_number_upper_bound=10 ** 6, label_column=header[-1])
    ok, res = sh.call('batches=model', 'estimate_importances_minibatches', cr.estimate_importances_minibatches,
                      input_file=path, column_descriptions=list(header), fw_col_mapping=None, numeric_column_types=set(), batch_size=B, args=args,
                      data_encoding='utf-8', cpu_pool=pipe.SyncPool(), delimiter=',', logger=lg)
    os.remove(path)
    final_cp = read_checkpoint(cp)
    return ok, res, rec, lg, final_cp


def verify_run(sh, text, header, B, sub, rec, lg, final_cp, grouped, ctx):
    ncols = len(header)
    mb, remaining, tail_used, invalid = model_batches(text, ncols, B, sub)
    wit = lambda **kw: dict(kw, **ctx, model_batch_sizes=[len(b) for b in mb], observed_batch_sizes=[len(b) for b in rec.batches_in], remaining=remaining, tail_used=tail_used, model_invalid=invalid)  # noqa: E731
    # (1) batches
    sh.check('batches=model', rec.batches_in == mb, 'batches-differ-from-reference-reader',
             lambda: wit(first_difference=next(({'batch': i, 'observed_head': o[:3], 'model_head': m[:3], 'observed_tail': o[-2:], 'model_tail': m[-2:]}
                                                for i, (o, m) in enumerate(zip(rec.batches_in, mb)) if o != m), 'number of batches')))
    if 1022 <= remaining <= 1026:
        sh.check('tail-rule', (len(rec.batches_in) == len(mb)), 'tail-rule-not->1024', lambda: wit())
    # (2) invalid count
    said = [int(m.group(1)) for msg in lg.messages for m in [re.search(r'Detected (\d+) invalid', msg)] if m]
    if invalid > 0 and not said:
        sh.classes['invalid-count sentence absent (sub-claim inconclusive)'] += 1
    else:
        sh.check('invalid-count', (said[0] if said else 0) == invalid, 'invalid-line-count!=model', lambda: wit(logged=said))
    # (3) aggregation
    exp = median_table(rec.triplets)
    if rec.triplets and any(rec.triplets):
        got = None
        if grouped is not None:
            got = {(r.FeatureA, r.FeatureB): float(r.Score) for r in grouped.itertuples()}
        sh.check('median-aggregation', same_table(got, exp), 'grouped-frame!=per-pair-median', lambda: wit(got=str(got)[:600], expected=str(exp)[:600]))
    else:
        sh.check('median-aggregation', grouped is None or len(grouped) == 0, 'grouped-frame-without-batches', lambda: wit())
    # (4) checkpoint after every batch: seen at the start of batch k+1 and at return
    for k in range(1, len(rec.batches_in)):
        prev = median_table(rec.triplets[:k])
        sh.check('checkpoint-after-each-batch', same_table(rec.checkpoint_before[k], prev), 'checkpoint-stale-or-missing-at-batch-boundary',
                 lambda: wit(at_start_of_batch=k + 1, checkpoint=str(rec.checkpoint_before[k])[:500], expected=str(prev)[:500]))
    if rec.batches_in:
        sh.check('checkpoint-after-each-batch', same_table(final_cp, exp), 'final-checkpoint!=median-of-all-batches', lambda: wit(checkpoint=str(final_cp)[:500], expected=str(exp)[:500]))
    return mb, remaining, tail_used, invalid


def make_rows(nprng, rng, n, ncols):
    cols = []
    base = nprng.integers(0, 2, n)
    for c in range(ncols):
        card = rng.choice([2, 3, 5])
        v = nprng.integers(0, card, n)
        if c and rng.random() < 0.5:
            v = (v + base) % card
        cols.append(v)
    rows = [['v%d' % cols[c][i] for c in range(ncols)] for i in range(n)]
    # missing values are empty cells - also in the first and in the last column (a trailing delimiter in the file)
    for r in rows:
        if rng.random() < 0.25:
            r[rng.choice([0, ncols - 1, rng.randrange(ncols)])] = ''
        elif rng.random() < 0.05:
            # characters that str.splitlines() treats as line breaks but the file iterator does not
            r[rng.randrange(ncols)] = rng.choice(['a\u0085b', 'x\x0cy', 'p\x0bq', 'm\x1cn', 'k\u2028l'])
    return rows


def render(header, rows, corrupt):
    """corrupt: {row index -> kind}. Returns file text."""
    out = [','.join(header)]
    for i, r in enumerate(rows):
        kind = corrupt.get(i)
        if kind == 'short':
            out.append(','.join(r[:-1]))
        elif kind == 'long':
            out.append(','.join(r + ['extra']))
        elif kind == 'empty':
            out.append('')
        elif kind == 'quoted-comma':      # a valid row: one field contains a comma
            out.append(','.join(['"%s,x"' % r[0]] + r[1:]))
        elif kind == 'unclosed-quote':    # a truncated record: opening quote never closed (must not affect the following lines)
            out.append(r[0] + ',"' + ','.join(r[1:-1]) if len(r) > 2 else '"' + r[0])
        elif kind == 'merged':            # a quote swallowing a delimiter: one field too few
            out.append(','.join(['"%s,%s"' % (r[0], r[1])] + r[2:]))
        else:
            out.append(','.join(r))
    return '\n'.join(out) + ('' if corrupt.get('no-final-newline') else '\n')


def shard_exhaustive(sh, part, parts):
    nprng, rng = sh.nprng('exh'), sh.rng('exh')
    header = ['a', 'b', 'label']
    rmax, bmax = (12, 5) if sh.tier == 'quick' else (16, 6)
    jobs = []
    for n in range(0, rmax + 1):
        for B in range(1, bmax + 1):
            for sub in (1, 2, 3):
                jobs.append((n, B, sub, None, None))
                for pos in range(n):
                    for kind in ('short', 'long', 'empty', 'unclosed-quote'):
                        jobs.append((n, B, sub, (pos,), kind))
                if sh.tier == 'thorough' and n <= 9:
                    for p1 in range(n):
                        for p2 in range(p1 + 1, n):
                            jobs.append((n, B, sub, (p1, p2), 'short'))
    rows_by_n = {n: make_rows(nprng, rng, n, 3) for n in range(0, rmax + 1)}
    mine = jobs[part::parts]
    if sh.tier == 'quick':
        mine = mine[::2] if len(mine) > 700 else mine
    for t, (n, B, sub, pos, kind) in enumerate(mine):
        rows = rows_by_n[n]
        cmap = {p: kind for p in (pos or ())}
        if t % 2 == 1 and n > 0 and kind != 'empty':
            cmap['no-final-newline'] = True        # last row not terminated
        text = render(header, rows, cmap)
        ok, res, rec, lg, final_cp = run_library(sh, text, header, B, sub, 'max-value-coverage', False, 'e%d' % part)
        if not ok:
            continue
        mb, remaining, tail_used, invalid = verify_run(sh, text, header, B, sub, rec, lg, final_cp, res[1], {'rows': n, 'B': B, 'subsampling': sub, 'corrupt': pos, 'kind': kind, 'text_head': text[:300]})
        sh.case((n, B, sub, pos, kind), len(mb) >= 2, 'exhaustive/%s' % (kind or 'clean'),
                sample={'rows': n, 'B': B, 'subsampling': sub, 'corrupt_rows': pos, 'kind': kind, 'batches': [len(b) for b in mb], 'invalid': invalid} if t % 150 == 0 else None)


def shard_boundary(sh, part, parts):
    nprng, rng = sh.nprng('bnd', part), sh.rng('bnd', part)
    jobs = []
    for B in (1, 7, 64, 1024, 1025, 1500, 4096):
        for t in (0, 1, 1023, 1024, 1025, B - 1):
            if t >= B and B > 1:
                continue
            for sub in (1, 2, 3, 7, 10):
                jobs.append((B, t, sub))
    import random
    random.Random(sh.seed).shuffle(jobs)
    mine = jobs[part::parts]
    if sh.tier == 'quick':
        mine = mine[:10]
    # the tail decision itself (1024 -> dropped, 1025 -> used) is always driven, with and without preceding full batches
    forced = [(B, t, sub, k) for B in (1500, 2047) for t in (1023, 1024, 1025, 1026) for sub in (1, 2) for k in (0, 1)] + [(64, 5, s_, 3) for s_ in (1, 2, 3, 1, 2, 3, 1, 2, 3, 1, 2, 3, 1, 2)]
    mine = [(B, t, sub, None) for (B, t, sub) in mine] + forced[part::parts]
    for j, (B, t, sub, kforced) in enumerate(mine):
        k = rng.choice([0, 1, 2, 3]) if B > 64 else rng.choice([2, 5, 30])
        if kforced is not None:
            k = kforced
        target_consumed = k * B + t
        if B == 1:
            target_consumed = rng.choice([1, 2, 12])
        ncols = rng.randint(3, 6)
        header = ['c%d' % i for i in range(ncols - 1)] + ['label']
        # corrupt rows among the consumed positions: first/last position of a batch, just before EOF, runs
        n_file = target_consumed * sub + rng.randrange(sub)
        consumed_positions = [p for p in range(1, n_file + 1) if p % sub == 0]
        corrupt = {}
        style = rng.choice(['none', 'batch-edges', 'eof', 'run', 'scattered', 'valid-quoted', 'many-invalid'])
        if kforced is not None and B == 64:
            style = 'many-invalid'
        kinds = ['short', 'long', 'empty', 'merged', 'unclosed-quote']
        if consumed_positions and style != 'none':
            if style == 'batch-edges':
                for b in range(0, len(consumed_positions), max(1, B)):
                    corrupt[consumed_positions[b] - 1] = rng.choice(kinds)
                    if b + B - 1 < len(consumed_positions):
                        corrupt[consumed_positions[b + B - 1] - 1] = rng.choice(kinds)
                corrupt = dict(list(corrupt.items())[:rng.randint(1, 6)])
            elif style == 'eof':
                corrupt[consumed_positions[-1] - 1] = rng.choice(kinds)
            elif style == 'run':
                s = rng.randrange(len(consumed_positions))
                for p in consumed_positions[s:s + rng.randint(2, 5)]:
                    corrupt[p - 1] = rng.choice(kinds)
            elif style == 'many-invalid':      # more malformed rows than any bounded log buffer keeps
                for p in rng.sample(consumed_positions, min(len(consumed_positions), rng.randint(33, 70))):
                    corrupt[p - 1] = rng.choice(kinds)
            elif style == 'scattered':
                for p in rng.sample(consumed_positions, min(len(consumed_positions), rng.randint(1, 8))):
                    corrupt[p - 1] = rng.choice(kinds)
            else:
                for p in rng.sample(consumed_positions, min(len(consumed_positions), 5)):
                    corrupt[p - 1] = 'quoted-comma'
        # corrupted rows shrink the consumed valid count: top up so that the boundary t is still hit exactly for some cases
        n_invalid = sum(1 for v in corrupt.values() if v != 'quoted-comma')   # (an unclosed quote may or may not change the field count; the model decides)
        if rng.random() < 0.7:
            n_file += n_invalid * sub
        rows = make_rows(nprng, rng, n_file, ncols)
        if rng.random() < 0.4 and (n_file - 1) not in corrupt:
            corrupt['no-final-newline'] = True
        text = render(header, rows, corrupt)
        gz = rng.random() < 0.3
        heuristic = rng.choice(['max-value-coverage', 'MI-numba-randomized'])
        ok, res, rec, lg, final_cp = run_library(sh, text, header, B, sub, heuristic, gz, 'b%d' % part)
        if not ok:
            continue
        mb, remaining, tail_used, invalid = verify_run(sh, text, header, B, sub, rec, lg, final_cp, res[1],
                                                       {'file_rows': n_file, 'B': B, 'subsampling': sub, 'style': style, 'gz': gz, 'corrupt': sorted(map(str, corrupt.items()))[:10]})
        sh.case((n_file, B, sub, invalid, core.h64(sorted(map(str, corrupt.items())))), len(mb) >= 2 or 1023 <= remaining <= 1025,
                'boundary/B=%d/tail=%s/%s' % (B, 'used' if tail_used else ('dropped' if remaining else 'none'), style),
                sample={'file_rows': n_file, 'B': B, 'subsampling': sub, 'gz': gz, 'style': style, 'batches': [len(b) for b in mb], 'remaining_rows': remaining, 'tail_used': tail_used, 'invalid': invalid})


def shard_task(sh, part):
    """End to end: pairwise_ranks.tsv = ascending list of the per-pair medians."""
    import outrank.task_ranking as tr
    nprng, rng = sh.nprng('task', part), sh.rng('task', part)
    for run in range(4 if sh.tier == 'quick' else 8):
        cr = pipe.fresh_core_ranking()
        cwd = os.getcwd()
        B = rng.choice([40, 64, 1030])
        sub = rng.choice([1, 2, 3])
        nb = rng.choice([2, 3, 4]) if B < 1000 else 1
        tail = rng.choice([0, 1, B - 1]) if B < 1000 else rng.choice([1024, 1025])
        n_file = (nb * B + tail) * sub
        ncols = 3 + (run + part) % 3
        header = ['c%d' % i for i in range(ncols - 1)] + ['label']
        rows = make_rows(nprng, rng, n_file, ncols)
        corrupt = {p: rng.choice(['short', 'long', 'empty']) for p in rng.sample(range(n_file - 1), 3)}
        if run % 2 == 0:
            corrupt['no-final-newline'] = True
        text = render(header, rows, corrupt)
        dpath = os.path.join(cwd, 'data')            # the same data path for every run of this process: the file (and its header) is regenerated
        os.makedirs(dpath, exist_ok=True)
        with open(os.path.join(dpath, 'data.csv'), 'w', newline='') as f:
            f.write(text)
        out_dir = os.path.join(cwd, 'out-%d' % run)
        annotate = rng.choice(['True', 'False'])
        args = pipe.make_args(data_path=dpath, output_folder=out_dir, minibatch_size=B, subsampling=sub, heuristic=rng.choice(['MI-numba-randomized', 'max-value-coverage', 'correlation-Pearson']),
                              target_ranking_only=rng.choice(['True', 'False']), include_cardinality_in_feature_names=annotate, combination_number_upper_bound=10 ** 6)
        rec = Recorder(cr, cwd)
        tr.Pool = lambda *a_, **k_: pipe.SyncPool()
        tr.estimate_importances_minibatches = cr.estimate_importances_minibatches
        if run % 2:
            # through the command-line entry point (argument parsing and task dispatch included)
            flags = {'task': 'ranking', 'data_path': dpath, 'data_source': 'csv-raw', 'output_folder': out_dir, 'minibatch_size': B, 'subsampling': sub, 'heuristic': args.heuristic,
                     'target_ranking_only': args.target_ranking_only, 'include_cardinality_in_feature_names': annotate, 'combination_number_upper_bound': 10 ** 6,
                     'disable_tqdm': 'True', 'num_threads': 1}
            ok, _ = sh.call('tsv-sorted-ascending', 'outrank.__main__.main', pipe.run_cli, flags)
            sh.classes['task/via-cli-main'] += 1
        else:
            ok, _ = sh.call('tsv-sorted-ascending', 'outrank_task_conduct_ranking', tr.outrank_task_conduct_ranking, args)
        if not ok:
            continue
        # the csv-raw source is read as latin1 by design (parse_csv_raw): the reference reader decodes the same bytes the same way
        mb, remaining, tail_used, invalid = model_batches(text.encode('utf-8').decode('latin1'), ncols, B, sub)
        sh.check('batches=model', rec.batches_in == mb, 'batches-differ-from-reference-reader', lambda: {'observed': [len(b) for b in rec.batches_in], 'model': [len(b) for b in mb], 'B': B, 'sub': sub, 'rows': n_file})
        exp = median_table(rec.triplets)
        tsv = os.path.join(out_dir, 'pairwise_ranks.tsv')
        got_rows = []
        with open(tsv, newline='') as f:
            r = csv.reader(f, delimiter='\t')
            hdr = next(r)
            for row in r:
                a, b = row[hdr.index('FeatureA')], row[hdr.index('FeatureB')]
                if annotate == 'True':
                    a, b = re.sub(r'-\(\d+; \d+\)$', '', a), re.sub(r'-\(\d+; \d+\)$', '', b)
                got_rows.append((a, b, float(row[hdr.index('Score')])))
        scores = [s for _, _, s in got_rows]
        sh.check('tsv-sorted-ascending', all(scores[i] <= scores[i + 1] for i in range(len(scores) - 1)), 'pairwise_ranks-not-ascending', lambda: {'scores_head': scores[:20]})
        got = {(a, b): s for a, b, s in got_rows}
        sh.check('median-aggregation', len(got) == len(got_rows) and same_table(got, exp), 'pairwise_ranks!=per-pair-median',
                 lambda: {'tsv': str(got)[:600], 'expected': str(exp)[:600], 'batches': [len(b) for b in mb]})
        if 1022 <= remaining <= 1026:
            sh.ok('tail-rule')
        sh.case(('task', n_file, B, sub, tail_used, part, run), len(mb) >= 2 or 1023 <= remaining <= 1025, 'task/tail=%s' % ('used' if tail_used else 'dropped'),
                sample={'file_rows': n_file, 'B': B, 'subsampling': sub, 'batches': [len(b) for b in mb], 'remaining': remaining, 'tail_used': tail_used, 'tsv_rows': len(got_rows)})


def shard_aggregation(sh, part):
    """The aggregation step on its own (get_grouped_df and the checkpoint writer) over score histories the scoring heuristics can
    produce but the small files above rarely do: pairs missing from some batches, undefined scores (NaN - Pearson with a column that is
    constant inside a batch) in some or all batches of a pair, ties, negative values, infinities, huge and tiny magnitudes, one batch
    only, duplicate rows of a pair inside one batch."""
    import math
    cr = pipe.fresh_core_ranking()
    rng = sh.rng('agg', part)
    cwd = os.getcwd()
    cp = os.path.join(cwd, 'ranking_checkpoint_tmp.tsv')
    for t in range(150 if sh.tier == 'quick' else 1500):
        nf = rng.randint(1, 6)
        names = rng.sample(['a', 'b', 'label', 'f AND g', 'x-(3; 50%)', 'é', '0', 'A'], nf)
        pairs = [(x, y) for x in names for y in names]
        nb = rng.choice([1, 2, 3, 4, 5, 8])
        regime = rng.choice(['plain', 'nan-some', 'nan-all-for-a-pair', 'ties', 'wide', 'inf'])
        history, acc = [], []
        doomed = rng.choice(pairs)
        for b in range(nb):
            batch = []
            for pr in pairs:
                if rng.random() < 0.15:
                    continue
                for _ in range(2 if rng.random() < 0.1 else 1):
                    v = rng.choice([0.0, 0.25, 0.5, 1.0]) if regime == 'ties' else rng.uniform(-1, 1)
                    if regime == 'wide':
                        v *= 10.0 ** rng.choice([-12, -3, 0, 6, 15])
                    if regime == 'inf' and rng.random() < 0.1:
                        v = rng.choice([math.inf, -math.inf])
                    if regime in ('nan-some', 'nan-all-for-a-pair') and rng.random() < 0.25:
                        v = math.nan
                    if regime == 'nan-all-for-a-pair' and pr == doomed:
                        v = math.nan
                    batch.append((pr[0], pr[1], v))
            rng.shuffle(batch)
            history.append(batch)
            acc = acc + batch
            exp = median_table(history)
            ok, g = sh.call('median-aggregation', 'get_grouped_df', cr.get_grouped_df, list(acc))
            if not ok:
                continue
            got = None if g is None else {(r.FeatureA, r.FeatureB): float(r.Score) for r in g.itertuples()}
            if not acc:
                sh.check('median-aggregation', got is None or not got, 'grouped-frame-without-batches', lambda: {'got': str(got)[:300]})
                continue
            # +/- inf in one pair: the median of an even count may be inf-inf; the model then holds NaN and only NaN or a bound is accepted
            sh.check('median-aggregation', same_table(got, exp), 'grouped-frame!=per-pair-median',
                     lambda: {'regime': regime, 'batches': b + 1, 'history': [[(a_, b_, repr(v_)) for a_, b_, v_ in hb][:12] for hb in history][:4], 'got': str(got)[:500], 'expected': str(exp)[:500]})
            if os.path.exists(cp):
                os.remove(cp)
            ok, _ = sh.call('checkpoint-after-each-batch', 'checkpoint_importances_df', cr.checkpoint_importances_df, list(acc))
            if ok:
                sh.check('checkpoint-after-each-batch', same_table(read_checkpoint(cp), exp), 'checkpoint!=median-of-the-batches-so-far',
                         lambda: {'regime': regime, 'batches': b + 1, 'checkpoint': str(read_checkpoint(cp))[:500], 'expected': str(exp)[:500]})
        sh.case(('agg', part, t), nb > 1, 'aggregation/' + regime, sample={'regime': regime, 'features': names, 'batches': nb} if t % 50 == 0 else None)
