"""C17 - 3MR ranking is a greedy-optimal permutation (exact-arithmetic post-condition on rank_features_3MR)."""
from __future__ import annotations

import itertools
import os
import statistics
from fractions import Fraction

from vf import core, gen, pipe

PROPERTY = 'C17'
RULE = ('cases = one call of rank_features_3MR: 1..30 features with names of mixed types/orderings; relevance / redundancy / relation values on a '
        'dyadic grid (exact ties) or random floats, negatives included; dense and sparse symmetric pair dictionaries (both orientations '
        'present or both absent); strategy in {median, mean, sum}; alpha, beta in {0, 0.5, 1, 3}; all-equal relevance; plus the same '
        'post-condition installed on task_ranking.rank_features_3MR during real 3MR task runs (dictionaries built by the pipeline). '
        'distinct = (n, strategy, alpha, beta, table hash); non-trivial = n >= 3 and the ranking differs from the plain relevance order.')
REQUIRED = {'permutation-with-ranks': 200, 'first-is-max-relevance': 200, 'greedy-step-optimal': 500, 'pipeline-postcondition': 1, 'file-level-3mr': 1}
ASSUMPTIONS = ['pair dictionaries are symmetric (the file-level oracle rebuilds them symmetrically from pairwise_ranks.tsv)', 'importance is recomputed in exact rational arithmetic; a chosen feature may trail the maximum by 1e-12 * scale (float rounding of the implementation)']
WARM = [{}]
WARM_CODE = 'import outrank.task_ranking'


def plan(tier, seed):
    shards = []
    k = 6 if tier == 'quick' else 36
    for i in range(k):
        shards.append({'name': 'direct-%d' % i, 'fn': 'shard_direct', 'args': {'part': i}})
    for i in range(1 if tier == 'quick' else 10):
        shards.append({'name': 'pipeline-%d' % i, 'fn': 'shard_pipeline', 'args': {'part': i}})
    return shards


def agg(values, strategy):
    if strategy == 'median':
        return statistics.median(values)
    if strategy == 'mean':
        return sum(values, Fraction(0)) / len(values)
    return sum(values, Fraction(0))


def verify(sh, out, relevance, redundancy, relation, strategy, alpha, beta, origin, sample_ok=False):
    feats = list(out['Feature'])
    ranks = [int(r) for r in out['3MR_Ranking']]
    n = len(relevance)
    wit = lambda **kw: dict(kw, origin=origin, strategy=strategy, alpha=alpha, beta=beta, ranking=[repr(f) for f in feats[:40]], relevance={repr(k): v for k, v in list(relevance.items())[:40]},  # noqa: E731
                            redundancy={repr(k): v for k, v in list(redundancy.items())[:60]}, relation={repr(k): v for k, v in list(relation.items())[:60]})
    ok = sorted(map(repr, feats)) == sorted(map(repr, relevance)) and len(feats) == n and ranks == list(range(1, n + 1)) and list(out.columns) == ['Feature', '3MR_Ranking']
    sh.check('permutation-with-ranks', ok, 'not-a-permutation-with-ranks-1..n', wit)
    if not ok:
        return False
    F = lambda v: Fraction(v)  # noqa: E731
    rel = {k: F(v) for k, v in relevance.items()}
    scale = max([abs(v) for v in rel.values()] + [abs(F(v)) for v in redundancy.values()] + [abs(F(v)) for v in relation.values()] + [1])
    tol = Fraction(1, 10 ** 12) * scale * max(1, n)
    mx = max(rel.values())
    sh.check('first-is-max-relevance', rel[feats[0]] >= mx - tol, 'first-feature-not-of-maximal-relevance', lambda: wit(first=repr(feats[0]), first_relevance=relevance[feats[0]], max_relevance=float(mx)))
    a, b = F(alpha), F(beta)
    for p in range(1, n):
        ranked = feats[:p]

        def imp(f):
            red = agg([F(redundancy.get((r, f), 0)) for r in ranked], strategy)
            rl = agg([F(relation.get((r, f), 0)) for r in ranked], strategy)
            return rel[f] - a * red + b * rl
        chosen = imp(feats[p])
        best_f, best = None, None
        for f in feats[p:]:
            v = imp(f)
            if best is None or v > best:
                best_f, best = f, v
        if not sh.check('greedy-step-optimal', chosen >= best - tol, 'position-holds-a-non-maximal-feature',
                        lambda: wit(position=p + 1, chosen=repr(feats[p]), chosen_importance=float(chosen), better=repr(best_f), better_importance=float(best))):
            break
    by_rel = sorted(relevance, key=lambda k: -relevance[k])
    return n >= 3 and [repr(x) for x in by_rel] != [repr(x) for x in feats]


def shard_direct(sh, part):
    from outrank.algorithms.importance_estimator import rank_features_3MR
    rng = sh.rng('direct', part)
    reps = 150 if sh.tier == 'quick' else 3000
    persistent = None
    for t in range(reps):
        if t % 4 == 3 and persistent is not None:
            pass
        reuse_names = (t % 4 == 3 and persistent is not None)
        n = rng.choice([1, 2, 3, 4, 5, 8, 12, 20, 30])
        name_kind = rng.choice(['str', 'str', 'int', 'hostile'])
        if name_kind == 'int':
            names = rng.sample(range(100), n)
            if rng.random() < 0.6:
                names[rng.randrange(n)] = 0          # 0-based integer ids: a falsy feature key
        elif name_kind == 'hostile':
            names = rng.sample(['a', 'b', 'a b', 'é', 'label', 'x AND y', '', '0', 'f-(3; 100)', 0, ()] + ['n%d' % i for i in range(40)], n)
        else:
            names = ['f%d' % i for i in range(n)]
            rng.shuffle(names)
        if reuse_names:
            names = list(persistent[0])
            n = len(names)
        grid = rng.choice(['dyadic', 'float', 'few-values', 'near-ties', 'large-magnitude'])
        tie_base = rng.uniform(0.2, 0.8)

        def val(neg_ok=True):
            if grid == 'dyadic':
                v = rng.randint(-8 if neg_ok else 0, 8) / 8.0
            elif grid == 'few-values':
                v = rng.choice([0.0, 0.5, 1.0])
            elif grid == 'near-ties':          # candidates separated by ~1e-9: single precision cannot order them
                v = tie_base + rng.randint(-50, 50) * 1e-9
            elif grid == 'large-magnitude':    # un-normalised scores above 2^24
                v = float(2 ** 25 + rng.randint(-2000, 2000))
            else:
                v = rng.uniform(-1 if neg_ok else 0, 1)
            return v
        neg = rng.random() < 0.5
        relevance = {f: val(neg) for f in names}
        if rng.random() < 0.1:
            c = val(neg)
            relevance = {f: c for f in names}
        density = rng.choice([1.0, 1.0, 0.6, 0.3, 0.0])
        if reuse_names:
            density = 1.0
        redundancy, relation = {}, {}
        for d in (redundancy, relation):
            for x, y in itertools.combinations(names, 2):
                if rng.random() < density:
                    v = val(neg)
                    d[(x, y)] = v
                    d[(y, x)] = v
            if rng.random() < 0.5:
                for x in names:
                    d[(x, x)] = val(neg)
        strategy = rng.choice(['median', 'mean', 'sum'])
        alpha, beta = rng.choice([0, 0.5, 1, 3]), rng.choice([0, 0.5, 1, 3])
        kwargs = {}
        if not (strategy == 'median' and alpha == 1 and beta == 1 and rng.random() < 0.5):
            kwargs = {'strategy': strategy, 'alpha': alpha, 'beta': beta}
        else:
            strategy, alpha, beta = 'median', 1.0, 1.0
        if t % 4 == 3 and persistent is not None and set(persistent[0]) == set(relevance):
            # long-lived score dictionaries refreshed per batch: same objects, same keys, new values
            pr, pd_, pl = persistent
            pr.clear(); pr.update(relevance)
            for d_old, d_new in ((pd_, redundancy), (pl, relation)):
                if set(d_old) == set(d_new):
                    for k_ in d_new:
                        d_old[k_] = d_new[k_]
                else:
                    d_old.clear(); d_old.update(d_new)
            args3 = (pr, pd_, pl)
        else:
            args3 = (dict(relevance), dict(redundancy), dict(relation))
            persistent = args3
        snap3 = tuple(dict(d_) for d_ in args3)
        ok, out = sh.call('permutation-with-ranks', 'rank_features_3MR', rank_features_3MR, *args3, **kwargs)
        if not ok:
            continue
        sh.check('permutation-with-ranks', all(dict(a_) == b_ for a_, b_ in zip(args3, snap3)), 'ranking-modified-the-score-dictionaries', lambda: {'sizes_before': [len(b_) for b_ in snap3], 'sizes_after': [len(a_) for a_ in args3]})
        nontrivial = verify(sh, out, relevance, redundancy, relation, strategy, alpha, beta, 'direct')
        sh.case((n, strategy, alpha, beta, core.h64((sorted(map(repr, relevance.items())), sorted(map(repr, redundancy.items())), sorted(map(repr, relation.items()))))), nontrivial,
                '%s/%s/density=%s' % (strategy, grid, density), sample={'n': n, 'strategy': strategy, 'alpha': alpha, 'beta': beta, 'relevance': {repr(k): v for k, v in list(relevance.items())[:5]},
                                                                    'ranking': [repr(f) for f in list(out['Feature'])[:8]]} if t % 50 == 0 else None)


def shard_pipeline(sh, part):
    """Post-condition installed on the function the ranking task calls, with the dictionaries the task builds."""
    import math
    import outrank.task_ranking as tr
    cr = pipe.fresh_core_ranking()
    tr.estimate_importances_minibatches = cr.estimate_importances_minibatches
    tr.Pool = lambda *a_, **k_: pipe.SyncPool()
    real = tr.rank_features_3MR
    seen = []

    def hooked(relevance_dict, redundancy_dict, relational_dict, *a, **k):
        out = real(relevance_dict, redundancy_dict, relational_dict, *a, **k)
        allv = list(relevance_dict.values()) + list(redundancy_dict.values()) + list(relational_dict.values())
        if any(isinstance(v, float) and (math.isnan(v) or math.isinf(v)) for v in allv):
            sh.classes['pipeline dictionaries contain non-finite values (precondition not met; skipped)'] += 1
            return out
        nt = verify(sh, out, dict(relevance_dict), dict(redundancy_dict), dict(relational_dict), k.get('strategy', 'median'), k.get('alpha', 1.0), k.get('beta', 1.0), 'task_ranking')
        sh.ok('pipeline-postcondition')
        seen.append((len(relevance_dict), len(redundancy_dict), len(relational_dict), nt, list(out['Feature'])[:6]))
        return out
    tr.rank_features_3MR = hooked
    rng, nprng = sh.rng('pipe', part), sh.nprng('pipe', part)
    for run in range(2 if sh.tier == 'quick' else 4):
        k = rng.randint(4, 6)
        n = 600
        header = ['f%d' % i for i in range(k)] + ['label']
        if run % 2 == 1:
            # names that contain the letters of the relation marker, and names with edge blanks (header "a, b")
            header[0], header[1] = 'BRAND_RELATED', ' f1'
            header[2] = 'f2 '
        lab = nprng.integers(0, 2, n)
        cols = []
        for i in range(k):
            card = rng.choice([2, 3, 5, 9])
            v = nprng.integers(0, card, n)
            noise = rng.choice([0.1, 0.3, 0.6, 0.9])
            v = [int(lab[j]) % card if nprng.random() > noise else int(v[j]) for j in range(n)]
            cols.append(v)
        rows = [['v%d' % cols[c][i] for c in range(k)] + ['y%d' % lab[i]] for i in range(n)]
        dpath = os.path.join(sh.scratch, 'data-%d' % run)
        os.makedirs(dpath, exist_ok=True)
        pipe.write_csv(os.path.join(dpath, 'data.csv'), header, rows)
        out_dir = os.path.join(sh.scratch, 'out-%d' % run)
        args = pipe.make_args(data_path=dpath, output_folder=out_dir, minibatch_size=200, heuristic='MI-numba-3mr', target_ranking_only='False', interaction_order=2,
                              combination_number_upper_bound=10 ** 4, include_cardinality_in_feature_names='False')
        ok, _ = sh.call('pipeline-postcondition', 'outrank_task_conduct_ranking', tr.outrank_task_conduct_ranking, args)
        if ok:
            verify_files(sh, out_dir, 'label')
        if ok and seen:
            s = seen[-1]
            sh.case(('pipeline', part, run, s[0], s[1], s[2]), True, 'pipeline-3mr', sample={'features': s[0], 'redundancy_pairs': s[1], 'relation_pairs': s[2], 'ranking_head': s[4]})


def verify_files(sh, out_dir, label):
    """File-level oracle, independent of the glue that builds the dictionaries: rebuild relevance / redundancy / relation from
    pairwise_ranks.tsv (relation of a pair = score of its "a AND_REL b" column against the label, in both orientations; each
    group min-max normalised as documented) and check 3mr_ranks.tsv for greedy optimality against them."""
    import csv
    import pandas as pd
    with open(os.path.join(out_dir, 'pairwise_ranks.tsv'), newline='') as f:
        r = csv.reader(f, delimiter='\t')
        hdr = next(r)
        trip = [(row[hdr.index('FeatureA')], row[hdr.index('FeatureB')], float(row[hdr.index('Score')])) for row in r]
    rel_raw = {a: s for a, b, s in trip if b == label and ' AND_REL ' not in a and a != label}
    relation_raw = {}
    for a, b, s in trip:
        if b == label and ' AND_REL ' in a:
            x, y = a.split(' AND_REL ')[0], a.split(' AND_REL ')[1]
            relation_raw[(x, y)] = s
            relation_raw[(y, x)] = s
    red_raw = {(a, b): s for a, b, s in trip if a != label and b != label and ' AND_REL ' not in a and ' AND_REL ' not in b}

    def norm(d):
        if not d:
            return {}
        lo, hi = min(d.values()), max(d.values())
        if hi == lo:
            return None
        return {k: (v - lo) / (hi - lo) for k, v in d.items()}
    relevance, redundancy, relation = norm(rel_raw), norm(red_raw), norm(relation_raw)
    if relevance is None or redundancy is None or relation is None or not relevance:
        sh.classes['file-level 3MR oracle skipped: a score group is constant (normalisation undefined)'] += 1
        return
    out = pd.read_csv(os.path.join(out_dir, '3mr_ranks.tsv'), sep='\t', keep_default_na=False)
    nt = verify(sh, out, relevance, redundancy, relation, 'median', 1.0, 1.0, '3mr_ranks.tsv vs pairwise_ranks.tsv')
    sh.ok('file-level-3mr')
    sh.case(('files', out_dir[-12:], len(relevance), len(relation)), True, 'pipeline-3mr-files', sample={'features': len(relevance), 'relation_pairs': len(relation) // 2, 'ranking_head': list(out['Feature'])[:6]})
