"""C05 - every emitted (A, B, score) equals the selected heuristic on the two coded columns (invariant at a hook).

The oracle is installed as a wrapper around core_ranking.mixed_rank_graph, so it sees the frame the pipeline actually
scored (also when reached through compute_batch_ranking with feature construction) and the triplets it returned.
"""
from __future__ import annotations

import glob
import math
import os
import re

from vf import core, gen, oracles, pipe

PROPERTY = 'C05'
RULE = ('cases = one scored mini-batch: a generated string frame (2-8 feature columns, cardinalities 1..n, alphabets: ids, digit strings '
        'whose numeric and lexicographic orders differ, unicode, leading/trailing spaces, empty strings, punctuation; label first/middle/'
        'last and under another name; n in 50..3000; high-cardinality pairs for max-value-coverage) x heuristic in {MI, MI-numba-3mr, '
        'MI-numba-randomized, max-value-coverage, correlation-Pearson, AMI, Constant} x {target-only, pairwise}, scored through '
        'mixed_rank_graph / compute_batch_ranking with an in-process pool and (a few) with the real process pool; every returned '
        'triplet is recomputed from the frame with an independent coding (rank among sorted distinct strings). Documented heuristic '
        'names are harvested from README/docs/examples/scripts/benchmarks/__main__/task_selftest at run time. distinct = (heuristic, '
        'mode, frame hash); non-trivial = the oracle scores of the batch are not all equal.')
REQUIRED = {'scored-frame=input-rows': 50, 'triplet=heuristic(codes)': 200, 'documented-name-not-degraded': 2, 'label-is-target': 20, 'real-pool-batch': 1}
ASSUMPTIONS = ['values contain no NUL character (pandas merges "\\x00" with "" when categorising) and no None', 'scipy.stats.pearsonr and sklearn adjusted_mutual_info_score are trusted on the oracle\'s own codes (the property is about dispatch, coding and orientation)',
               'non-label pairs may be scored in either orientation (the corrected score is not symmetric)']
WARM = [{}]
WARM_CODE = 'import outrank.core_ranking'

HEURISTICS = ['MI', 'MI-numba-3mr', 'MI-numba-randomized', 'max-value-coverage', 'correlation-Pearson', 'AMI', 'Constant']


def plan(tier, seed):
    shards = []
    k = 8 if tier == 'quick' else 32
    for i in range(k):
        shards.append({'name': 'frames-%d' % i, 'fn': 'shard_frames', 'args': {'part': i, 'parts': k}})
    shards.append({'name': 'documented-names', 'fn': 'shard_documented', 'args': {}})
    shards.append({'name': 'default-size-batch', 'fn': 'shard_big_batch', 'args': {}})
    shards.append({'name': 'identifier-like-target', 'fn': 'shard_idlike_target', 'args': {}})
    for i in range(1 if tier == 'quick' else 8):
        shards.append({'name': 'real-pool-%d' % i, 'fn': 'shard_real_pool', 'args': {'part': i}})
    return shards


# ----------------------------------------------------------------------------------------------
def heuristic_oracle(heuristic, first, second):
    """Score of `first` (feature codes) against `second` (target codes) by definition of the named heuristic."""
    n = len(first)
    if heuristic in ('MI', 'MI-numba-3mr'):
        return oracles.plugin_mi(first, second)
    if heuristic == 'MI-numba-randomized':
        return oracles.corrected_model(first, second)
    if heuristic == 'max-value-coverage':
        from collections import Counter
        return max(Counter(zip(first, second)).values()) / n
    if heuristic == 'correlation-Pearson':
        import warnings
        import numpy as np
        from scipy.stats import pearsonr
        with warnings.catch_warnings():
            warnings.simplefilter('ignore')
            return float(pearsonr(np.array(first, dtype=float), np.array(second, dtype=float))[0])
    if heuristic == 'AMI':
        from sklearn.metrics import adjusted_mutual_info_score
        return float(adjusted_mutual_info_score(first, second))
    if heuristic == 'Constant':
        return 0.0
    raise ValueError(heuristic)


def same(heuristic, got, exp):
    got = float(got)
    if math.isnan(exp) or math.isnan(got):
        return math.isnan(exp) and math.isnan(got)
    if heuristic in ('MI-numba-3mr', 'MI-numba-randomized'):
        return oracles.close32(got, exp)
    return abs(got - exp) <= 1e-9 + 1e-9 * abs(exp)


def check_batch(sh, heuristic, label, frame, triplets, origin, sample=False):
    """The hook oracle: `frame` is the data frame handed to mixed_rank_graph, `triplets` what it returned."""
    cols = list(frame.columns)
    codes = {}
    for c in cols:
        vals = frame[c].tolist()
        if vals and all(isinstance(v, (int, float)) and not isinstance(v, bool) for v in vals):
            codes[c] = pipe.codes_sorted(vals)               # numeric column: categories sorted numerically
        else:
            codes[c] = pipe.codes_sorted([str(v) if not isinstance(v, str) else v for v in vals])
    cache = {}

    def h(a, b):
        if (a, b) not in cache:
            cache[(a, b)] = heuristic_oracle(heuristic, codes[a], codes[b])
        return cache[(a, b)]
    exp_values = []
    for (A, B, s) in triplets:
        wit = lambda **kw: dict(kw, heuristic=heuristic, origin=origin, A=A, B=B, got=float(s), rows=len(frame), columns=cols,  # noqa: E731
                                colA=frame[A].tolist()[:120] if A in codes else None, colB=frame[B].tolist()[:120] if B in codes else None)
        if A not in codes or B not in codes:
            sh.fail('triplet=heuristic(codes)', 'triplet-names-unknown-column', wit())
            continue
        if A == label or B == label:
            feat = B if A == label else A
            exp = h(feat, label)
            sh.check('label-is-target', same(heuristic, s, exp), 'label-pair-score!=heuristic(feature|label)',
                     lambda: wit(expected=exp, swapped_orientation=h(label, feat)))
            sh.ok('triplet=heuristic(codes)')
            exp_values.append(exp)
        else:
            e1, e2 = h(A, B), h(B, A)
            sh.check('triplet=heuristic(codes)', same(heuristic, s, e1) or same(heuristic, s, e2), 'pair-score!=heuristic', lambda: wit(expected=[e1, e2]))
            exp_values.append(e1)
    distinct = {round(v, 6) if not math.isnan(v) else 'nan' for v in exp_values}
    return len(distinct) > 1


def install_hook(cr, captured, sh=None):
    real = cr.mixed_rank_graph
    sh_ref = [sh] if sh is not None else []

    def hooked(input_dataframe, args, cpu_pool, pbar):
        snap = input_dataframe.copy()
        args_before = dict(vars(args)) if hasattr(args, '__dict__') else None
        out = real(input_dataframe, args, cpu_pool, pbar)
        if sh_ref:
            same = list(input_dataframe.columns) == list(snap.columns) and len(input_dataframe) == len(snap) and all(input_dataframe[c].tolist() == snap[c].tolist() for c in snap.columns)
            sh_ref[0].check('scored-frame=input-rows', same, 'mixed_rank_graph-modified-the-frame-it-was-given', lambda: {'columns': list(input_dataframe.columns)[:10]})
            if args_before is not None and '3mr' not in str(args_before.get('heuristic')):
                after = dict(vars(args))
                changed = {k: (repr(args_before[k]), repr(after.get(k))) for k in args_before if after.get(k) != args_before[k]}
                sh_ref[0].check('scored-frame=input-rows', not changed, 'mixed_rank_graph-modified-the-args-object', lambda: {'changed': changed})
        captured.append((snap, list(out.triplet_scores)))
        return out
    cr.mixed_rank_graph = hooked
    return real


def shard_frames(sh, part, parts):
    import random
    import pandas as pd
    cr = pipe.fresh_core_ranking()
    captured = []
    install_hook(cr, captured, sh)
    rng, nprng = sh.rng('frames', part), sh.nprng('frames', part)
    reps = 5 if sh.tier == 'quick' else 150
    todo = [(h, mode, via, r) for h in HEURISTICS for mode in ('True', 'False') for via in ('mixed_rank_graph', 'compute_batch_ranking') for r in range(reps)]
    random.Random(sh.seed).shuffle(todo)
    for t, (heuristic, mode, via, r) in enumerate(gen.chunks(todo, parts)[part]):
        slow = heuristic in ('AMI',)
        n = rng.choice([50, 120, 400] if slow else [50, 120, 400, 1000, 3000])
        ncols = rng.randint(1, 4 if (mode == 'False' and n > 400) or slow else 8)
        label = rng.choice(['label', 'label', 'click', 'f9'])
        names = None
        if rng.random() < 0.35:
            # feature names that contain the label name (click_source, xlabel, labellabel ...)
            pool = [label + '_src', 'x' + label, label + label, label + '7d', 'pre ' + label, label.upper(), label + ' ']
            names = rng.sample(pool, min(ncols, len(pool))) + ['f%d' % i for i in range(max(0, ncols - len(pool)))]
            rng.shuffle(names)
        data, cols, classes = gen.string_frame(rng, nprng, n, ncols, label=label, names=names)
        if rng.random() < 0.3 and len(cols) >= 2:
            # two different columns that are one-to-one recodings of each other (code / name pairs): not a self pair
            src = rng.choice([c for c in cols if c != label] or cols)
            other = rng.choice([c for c in cols if c != src])
            distinct = sorted(set(data[src]))
            perm = distinct[:]
            rng.shuffle(perm)
            ren = {v: 'nm_%d_%s' % (perm.index(v), 'x' * (perm.index(v) % 3)) for v in distinct}
            if other != label:
                data[other] = [ren[v] for v in data[src]]
        int_frame = via == 'mixed_rank_graph' and rng.random() < 0.25
        if int_frame:
            # library use with integer columns (negative values, values >= 2^31, narrow and wide dtypes): scores are still
            # defined on the category codes of the contents
            for c in cols:
                distinct = sorted(set(data[c]))
                style = rng.choice(['small', 'negative', 'huge', 'sparse', 'float'])
                base_ = {'small': 0, 'negative': -len(distinct) // 2 - 1, 'huge': 2 ** 31 - 2, 'sparse': -7, 'float': 0}[style]
                step = 1 if style != 'sparse' else 1000003
                perm = list(range(len(distinct)))
                rng.shuffle(perm)
                lut = {v: base_ + step * perm[i] for i, v in enumerate(distinct)}
                if style == 'float':       # real-valued column: several values inside one integer interval
                    lut = {v: 0.25 * perm[i] - 1.0 for i, v in enumerate(distinct)}
                data[c] = [lut[v] for v in data[c]]
            classes = {c: 'int' for c in cols}
        if heuristic == 'max-value-coverage' and rng.random() < 0.5 and n >= 1000:
            # high-cardinality pair (>= 158 x >= 852 distinct values): hashed buckets would alias joint values
            data[cols[0] if cols[0] != label else cols[-1]] = ['k%d' % (i % 900) for i in range(n)]
            if ncols >= 2:
                other = [c for c in cols if c != label][-1]
                data[other] = ['m%d' % ((i * 7) % 200) for i in range(n)]
        args = pipe.make_args(heuristic=heuristic, target_ranking_only=mode, label_column=label, combination_number_upper_bound=10 ** 6)
        del captured[:]
        if via == 'mixed_rank_graph':
            df = pd.DataFrame(data, columns=cols)
            if int_frame and rng.random() < 0.5:
                for c in cols:
                    if all(isinstance(v, int) for v in data[c]) and -128 <= min(data[c]) and max(data[c]) <= 127:
                        df[c] = df[c].astype('int8')
            ok, _ = sh.call('triplet=heuristic(codes)', 'mixed_rank_graph', cr.mixed_rank_graph, df, args, pipe.SyncPool(), pipe.NullPbar())
        else:
            rows = [list(r_) for r_ in zip(*[data[c] for c in cols])]
            ok, _ = sh.call('triplet=heuristic(codes)', 'compute_batch_ranking', cr.compute_batch_ranking, rows, set(), args, pipe.SyncPool(), cols, pipe.ListLogger(), pipe.NullPbar())
        if not ok:
            continue
        if not captured:
            sh.inconclusive_note('hook on mixed_rank_graph not reached via ' + via)
            continue
        frame, triplets = captured[-1]
        # the columns that are scored hold the contents of the batch as parsed (no stage may rewrite them on the way)
        changed = [c for c in cols if c not in frame.columns or frame[c].tolist() != list(data[c])]
        sh.check('scored-frame=input-rows', not changed, 'batch-contents-rewritten-before-scoring',
                 lambda: {'via': via, 'columns_changed': changed[:4], 'example': {c: {'input': list(data[c])[:12], 'scored': frame[c].tolist()[:12] if c in frame.columns else None} for c in changed[:2]}})
        nontrivial = check_batch(sh, heuristic, label, frame, triplets, via)
        sh.case((heuristic, mode, core.h64(sorted((c, tuple(v)) for c, v in data.items()))), nontrivial and heuristic != 'Constant', '%s/%s/%s' % (heuristic, 'target-only' if mode == 'True' else 'pairwise', via),
                sample={'heuristic': heuristic, 'mode': mode, 'via': via, 'rows': n, 'columns': cols, 'alphabets': classes, 'first_row': [data[c][0] for c in cols],
                        'triplets': [[a, b, float(s)] for a, b, s in triplets[:4]]} if t % 12 == 0 else None)


def shard_big_batch(sh):
    """One batch of the default size (2^14 rows) with high-cardinality columns for every heuristic (sums of products of codes
    exceed 2^31 here; int8/int16/int32 code dtypes all occur)."""
    import pandas as pd
    cr = pipe.fresh_core_ranking()
    captured = []
    install_hook(cr, captured)
    rng, nprng = sh.rng('big'), sh.nprng('big')
    n = 2 ** 14
    lab = nprng.integers(0, 4, n)
    data = {'hi': ['k%05d' % v for v in nprng.integers(0, 3000, n)], 'mid': ['m%04d' % v for v in (lab * 150 + nprng.integers(0, 150, n))],
            'lo': ['l%d' % v for v in nprng.integers(0, 90, n)], 'idlike': ['u%05d' % (i % 9000) for i in range(n)], 'label': ['c%d' % v for v in lab]}
    cols = list(data)
    df = pd.DataFrame(data, columns=cols)
    for heuristic in (['correlation-Pearson', 'max-value-coverage', 'MI-numba-3mr'] if sh.tier == 'quick' else ['correlation-Pearson', 'max-value-coverage', 'MI-numba-3mr', 'MI-numba-randomized', 'MI']):
        args = pipe.make_args(heuristic=heuristic, target_ranking_only='False' if heuristic == 'correlation-Pearson' else 'True', combination_number_upper_bound=10 ** 6)
        del captured[:]
        ok, _ = sh.call('triplet=heuristic(codes)', 'mixed_rank_graph', cr.mixed_rank_graph, df, args, pipe.SyncPool(), pipe.NullPbar())
        if ok and captured:
            nt = check_batch(sh, heuristic, 'label', captured[-1][0], captured[-1][1], 'default-size-batch')
            sh.case((heuristic, 'big-batch'), nt, heuristic + '/default-size-batch', sample={'heuristic': heuristic, 'rows': n, 'cardinalities': {c: len(set(v)) for c, v in data.items()}})


def shard_idlike_target(sh):
    """A batch larger than 2^15 rows whose conditioning column is identifier-like (more than 2^15 distinct values, every row its own):
    the numba heuristics must still be the documented scores (corrected: 0 for every feature; plain: the feature's entropy)."""
    import pandas as pd
    cr = pipe.fresh_core_ranking()
    captured = []
    install_hook(cr, captured)
    nprng = sh.nprng('idlike')
    for n in ((33000,) if sh.tier == 'quick' else (32768, 32769, 40000, 70000)):
        data = {'f5': ['a%d' % v for v in nprng.integers(0, 5, n)], 'f200': ['b%d' % v for v in nprng.integers(0, 200, n)], 'const': ['x'] * n,
                'uid': ['u%06d' % v for v in nprng.permutation(n)]}
        df = pd.DataFrame(data, columns=list(data))
        for heuristic in ('MI-numba-randomized', 'MI-numba-3mr'):
            args = pipe.make_args(heuristic=heuristic, target_ranking_only='True', combination_number_upper_bound=10 ** 6, label_column='uid')
            del captured[:]
            ok, _ = sh.call('triplet=heuristic(codes)', 'mixed_rank_graph', cr.mixed_rank_graph, df, args, pipe.SyncPool(), pipe.NullPbar())
            if ok and captured:
                check_batch(sh, heuristic, 'uid', captured[-1][0], captured[-1][1], 'identifier-like-target')
                sh.case((heuristic, 'idlike', n), True, heuristic + '/identifier-like-target', sample={'heuristic': heuristic, 'rows': n, 'distinct_target_values': n})


def harvest_documented_heuristics():
    repo = core.REPO
    files = [os.path.join(repo, 'README.md'), os.path.join(repo, 'outrank', '__main__.py'), os.path.join(repo, 'outrank', 'task_selftest.py')]
    for pat in ('docs/*.md', 'examples/*', 'scripts/*', 'benchmarks/*'):
        files += glob.glob(os.path.join(repo, pat))
    names = {}
    rx = [re.compile(r"--heuristic[ =]+['\"]?([A-Za-z0-9_\-]+)"), re.compile(r"HEURISTIC\s*=\s*['\"]([A-Za-z0-9_\-]+)['\"]"),
          re.compile(r"conduct_self_test\(\s*['\"]([A-Za-z0-9_\-]+)['\"]"), re.compile(r"heuristic\s*=\s*['\"]([A-Za-z0-9_\-]+)['\"]")]
    for f in files:
        if not os.path.isfile(f):
            continue
        try:
            text = open(f, errors='replace').read()
        except OSError:
            continue
        for r in rx:
            for m in r.finditer(text):
                names.setdefault(m.group(1), os.path.relpath(f, repo))
    return names


def shard_documented(sh):
    import logging
    import numpy as np
    import pandas as pd
    cr = pipe.fresh_core_ranking()
    logging.disable(logging.NOTSET)
    msgs = []

    class H(logging.Handler):
        def emit(self, record):
            msgs.append(record.getMessage())
    lg = logging.getLogger('syn-logger')
    lg.addHandler(H())
    lg.propagate = False
    names = harvest_documented_heuristics()
    sh.notes['documented'] = names
    nprng = sh.nprng('doc')
    n = 1200
    target = nprng.integers(0, 2, n)
    df = pd.DataFrame({
        'signal': ['s%d' % v for v in np.where(nprng.random(n) < 0.15, 1 - target, target)],
        'weak': ['w%d' % v for v in np.where(nprng.random(n) < 0.4, 1 - target, target)],
        'noise': ['n%d' % v for v in nprng.integers(0, 5, n)],
        'label': ['c%d' % v for v in target],
    })
    for name, where in sorted(names.items()):
        if name.startswith('surrogate'):
            sh.classes['documented-surrogate(skipped):' + name] += 1
            continue
        del msgs[:]
        args = pipe.make_args(heuristic=name, target_ranking_only='True', combination_number_upper_bound=10 ** 6)
        ok, out = sh.call('documented-name-not-degraded', 'mixed_rank_graph', cr.mixed_rank_graph, df, args, pipe.SyncPool(), pipe.NullPbar())
        if not ok:
            continue
        scores = {(a, b): float(s) for a, b, s in out.triplet_scores if b == 'label' and a != 'label'}
        undefined = [m for m in msgs if 'not defined' in m]
        sh.check('documented-name-not-degraded', not undefined and len({round(v, 9) for v in scores.values()}) > 1, 'documented-heuristic-degrades-to-constant',
                 lambda: {'heuristic': name, 'documented_in': where, 'scores': {str(k): v for k, v in scores.items()}, 'log': undefined[:2]})
        sh.case(('documented', name), True, 'documented:' + name, sample={'heuristic': name, 'documented_in': where, 'scores': {a: v for (a, b), v in scores.items()}})


def shard_real_pool(sh, part):
    """A few batches through the real pathos process pool (the hook oracle runs in the parent on the returned triplets)."""
    import pandas as pd
    from pathos.multiprocessing import ProcessingPool as Pool
    cr = pipe.fresh_core_ranking()
    captured = []
    install_hook(cr, captured)
    rng, nprng = sh.rng('pool', part), sh.nprng('pool', part)
    pool = Pool(3)
    try:
        for heuristic in ('MI-numba-randomized', 'max-value-coverage', 'MI-numba-3mr'):
            data, cols, classes = gen.string_frame(rng, nprng, 600, 5)
            df = pd.DataFrame(data, columns=cols)
            args = pipe.make_args(heuristic=heuristic, target_ranking_only='False', combination_number_upper_bound=10 ** 6, num_threads=3)
            del captured[:]
            ok, out = sh.call('real-pool-batch', 'mixed_rank_graph', cr.mixed_rank_graph, df, args, pool, pipe.NullPbar())
            if not ok or not captured:
                continue
            frame, triplets = captured[-1]
            nontrivial = check_batch(sh, heuristic, 'label', frame, triplets, 'real-pool')
            sh.ok('real-pool-batch')
            sh.case((heuristic, 'real-pool', core.h64(sorted((c, tuple(v)) for c, v in data.items()))), nontrivial, heuristic + '/pairwise/real-pool')
    finally:
        try:
            pool.close()
            pool.join()
            pool.clear()
        except Exception:
            pass
