"""C15 - frequency sketches err on one side only (shadow-counter invariants after every update)."""
from __future__ import annotations

from collections import Counter

from vf import core, gen, pipe

PROPERTY = 'C15'
RULE = ('cases = one update stream: count-min sketches of depth 1..8 and width in {1,2,3,7,64,997,1000,1024,12345,2^15} (several alive at the '
        'same time, fed interleaved), items = ints (negative, 0, > 2^32) or strings (empty, unicode), few keys / many updates and many keys, '
        'weights 0, 1, large, via add and batch_add, hash seeds from the run seed; invariants (estimate >= true weight, <= total weight, '
        'every row sums to the total) checked after every update for short streams and every k-th for long ones; bounded counters with '
        'bounds 0, 1, 2, distinct-1, distinct, distinct+1, several instances interleaved. One pass runs under NUMBA_BOUNDSCHECK=1. '
        'distinct = (shape or bound, key type, stream hash); non-trivial = some estimate exceeds the truth (a collision row exists) or '
        'the counter reached its bound. Counter-in-pipeline shards: the per-column counters kept by compute_cardinalities (bounds 1..20 via '
        'max_unique_hist_constraint), checked against the exact recount after every mini-batch.')
REQUIRED = {'cms-never-underestimates': 500, 'cms-at-most-total': 500, 'cms-row-sums': 100, 'counter-never-overcounts': 200, 'counter-exact-below-bound': 200, 'counter-at-most-bound-keys': 200}
ASSUMPTIONS = ['weights are non-negative integers and totals stay below 2^31 (default int32 matrix)', 'the bounded counter is fed item by item through add()']
WARM = None


def plan(tier, seed):
    shards = []
    k = 4 if tier == 'quick' else 24
    for i in range(k):
        shards.append({'name': 'cms-%d' % i, 'fn': 'shard_cms', 'args': {'part': i}})
    shards.append({'name': 'cms-boundscheck', 'fn': 'shard_cms', 'args': {'part': 100}, 'env': {'NUMBA_BOUNDSCHECK': '1'}})
    for i in range(2 if tier == 'quick' else 16):
        shards.append({'name': 'counter-%d' % i, 'fn': 'shard_counter', 'args': {'part': i}})
    for i in range(1 if tier == 'quick' else 4):
        shards.append({'name': 'counter-in-pipeline-%d' % i, 'fn': 'shard_counter_pipeline', 'args': {'part': i}})
    return shards


INT_KEYS = [0, 1, -1, 2, -2, 7, 265, -265, 2 ** 31 - 1, -2 ** 31, 2 ** 32, 2 ** 32 + 5, 2 ** 40 + 3, -2 ** 40, 10 ** 15, 123456789]
STR_KEYS = ['', 'a', 'b', 'ab', 'ba', 'é', '中', '😀', ' ', 'a ', 'A', '0', '00', 'key-1', 'key-2', 'x' * 100, 'p' * 300 + 'A', 'p' * 300 + 'B', 'p' * 256, 'p' * 257]


def shard_cms(sh, part):
    import numpy as np
    from outrank.algorithms.sketches.counting_cms import CountMinSketch
    np.random.seed((sh.seed * 1000003 + part) % (2 ** 32))
    rng = sh.rng('cms', part)
    reps = 50 if sh.tier == 'quick' else 1500
    widths = [1, 2, 3, 7, 64, 997, 1000, 1024, 12345, 2 ** 15]
    for t in range(reps):
        ktype = rng.choice(['int', 'str', 'mixed'])
        nk = rng.choice([1, 2, 5, 16, 200])
        if ktype == 'int':
            keys = (INT_KEYS + [rng.randint(-10 ** 9, 10 ** 9) for _ in range(nk)])
        elif ktype == 'str':
            keys = (STR_KEYS + ['k%d' % rng.randrange(10 ** 6) for _ in range(nk)])
        else:      # ints and strings in one stream, including an int and its decimal spelling
            keys = [17, '17', 0, '0', -1, '-1', 'a', 3, '3.0', 2 ** 32 + 5] + [rng.randint(0, 50) for _ in range(nk)] + ['%d' % rng.randint(0, 50) for _ in range(nk)]
        keys = rng.sample(keys, min(len(keys), nk)) if nk < len(keys) else keys
        # several sketches alive at the same time, fed interleaved
        sketches = []
        for _ in range(rng.choice([1, 2, 3])):
            depth, width = rng.randint(1, 8), rng.choice(widths)
            sketches.append({'s': CountMinSketch(depth, width), 'truth': Counter(), 'total': 0, 'shape': (depth, width), 'over': False})
        n_updates = rng.choice([10, 60, 400]) if sh.tier == 'quick' else rng.choice([10, 100, 2000])
        every = 1 if n_updates <= 60 else 17
        for u in range(n_updates):
            sk = rng.choice(sketches)
            x = rng.choice(keys)
            w = rng.choice([1, 1, 1, 0, 2, 5, 1000])
            if rng.random() < 0.15:
                lst = [rng.choice(keys) for _ in range(rng.randint(0, 5))]
                ok, _ = sh.call('cms-never-underestimates', 'batch_add', sk['s'].batch_add, lst, w)
                for y in lst:
                    sk['truth'][y] += w
                    sk['total'] += w
            else:
                ok, _ = sh.call('cms-never-underestimates', 'add', sk['s'].add, x, w)
                sk['truth'][x] += w
                sk['total'] += w
            if not ok:
                return
            if u % every == 0 or u == n_updates - 1:
                for s2 in sketches:     # also the sketches that were NOT just updated
                    verify_cms(sh, s2, keys, ktype)
        for s2 in sketches:
            sh.case((s2['shape'], ktype, core.h64(sorted(map(repr, s2['truth'].items())))), s2['over'], 'cms/%s/width=%d' % (ktype, s2['shape'][1]),
                    sample={'shape': s2['shape'], 'key_type': ktype, 'updates': n_updates, 'total_weight': s2['total'],
                            'true_vs_estimate': [[repr(k), v, int(s2['s'].query(k))] for k, v in list(s2['truth'].items())[:4]]} if t % 5 == 0 else None)


def verify_cms(sh, sk, keys, ktype):
    import numpy as np
    s, truth, total = sk['s'], sk['truth'], sk['total']
    for x in keys:
        ok, est = sh.call('cms-never-underestimates', 'query', s.query, x)
        if not ok:
            return
        est = int(est)
        t = truth.get(x, 0)
        wit = lambda: {'shape': sk['shape'], 'item': repr(x), 'estimate': est, 'true_weight': t, 'total_weight': total, 'hash_seeds': s.hash_seeds.tolist()}  # noqa: E731
        sh.check('cms-never-underestimates', est >= t, 'estimate-below-true-weight', wit)
        sh.check('cms-at-most-total', est <= total, 'estimate-above-total-weight', wit)
        if est > t:
            sk['over'] = True
    M = np.asarray(s.get_matrix())
    sums = M.astype(np.int64).sum(axis=1).tolist()
    sh.check('cms-row-sums', all(v == total for v in sums) and len(sums) == sk['shape'][0], 'row-sum!=total-weight', lambda: {'shape': sk['shape'], 'row_sums': sums, 'total_weight': total})


def shard_counter(sh, part):
    from outrank.algorithms.sketches.counting_counters_ordinary import PrimitiveConstrainedCounter
    rng = sh.rng('counter', part)
    reps = 300 if sh.tier == 'quick' else 8000
    for t in range(reps):
        nk = rng.choice([1, 2, 3, 5, 12, 60])
        keys = rng.sample(STR_KEYS + ['k%d' % i for i in range(80)] + INT_KEYS, nk)
        n = rng.choice([5, 30, 200])
        stream_len_distinct = nk
        counters = []
        for _ in range(rng.choice([1, 2, 3])):
            bound = rng.choice([0, 1, 2, max(0, stream_len_distinct - 1), stream_len_distinct, stream_len_distinct + 1, 30000])
            counters.append({'c': PrimitiveConstrainedCounter(bound), 'bound': bound, 'truth': Counter(), 'seen_order': [], 'hit': False})
        fresh_default = PrimitiveConstrainedCounter()
        for u in range(n):
            c = rng.choice(counters)
            x = rng.choice(keys)
            distinct_before = len(c['truth'])
            ok, _ = sh.call('counter-never-overcounts', 'add', c['c'].add, x)
            if not ok:
                return
            c['truth'][x] += 1
            if rng.random() < 0.3:
                # a reader looks up counts of a fixed vocabulary, including values never fed (reading must not change the counter)
                for probe in ('never-fed-%d' % rng.randrange(5), x):
                    got_ = c['c'].default_counter[probe]
                    sh.check('counter-never-overcounts', got_ <= c['truth'].get(probe, 0), 'lookup-above-true-count', lambda: {'probe': repr(probe), 'got': got_})
            for c2 in counters:     # every instance, also the ones not updated (state must not leak between instances)
                got = dict(c2['c'].default_counter)
                wit = lambda: {'bound': c2['bound'], 'tracked': {repr(k): v for k, v in got.items()}, 'true_counts': {repr(k): v for k, v in c2['truth'].items()}, 'n_instances': len(counters)}  # noqa: E731
                sh.check('counter-never-overcounts', all(v <= c2['truth'].get(k, 0) for k, v in got.items()), 'tracked-count-above-true-count', wit)
                sh.check('counter-at-most-bound-keys', len(got) <= c2['bound'], 'tracks-more-than-bound-keys', wit)
                if len(c2['truth']) < c2['bound']:
                    sh.check('counter-exact-below-bound', got == dict(c2['truth']), 'inexact-below-bound', wit)
                if len(got) >= c2['bound']:
                    c2['hit'] = True
        sh.check('counter-never-overcounts', len(fresh_default.default_counter) == 0, 'fresh-counter-not-empty', lambda: {'tracked': dict(fresh_default.default_counter)})
        for c2 in counters:
            sh.case((c2['bound'], core.h64(sorted(map(repr, c2['truth'].items())))), c2['hit'], 'counter/bound-%s-distinct' % ('below' if c2['bound'] < nk else ('equal' if c2['bound'] == nk else 'above')),
                    sample={'bound': c2['bound'], 'distinct_seen': len(c2['truth']), 'tracked': len(c2['c'].default_counter)} if t % 25 == 0 else None)


def shard_counter_pipeline(sh, part):
    """The bounded counters the product itself keeps (one per column, fed cell by cell by compute_cardinalities with the bound of
    --max_unique_hist_constraint): after every mini-batch the same three claims against the exact recount of the cells fed so far."""
    import pandas as pd
    from vf import pipe
    cr = pipe.fresh_core_ranking()
    rng = sh.rng('counter-pipe', part)
    for t in range(60 if sh.tier == 'quick' else 600):
        bound = rng.choice([1, 2, 3, 5, 8, 20])
        cols = ['h%d_%d_%d' % (part, t, j) for j in range(rng.randint(1, 3))]      # fresh column names: the product keys its counters by name
        vocab = {c: ['v%d' % i for i in range(rng.choice([1, 2, bound - 1 or 1, bound, bound + 1, 3 * bound + 2]))] for c in cols}
        truth = {c: Counter() for c in cols}
        hit = False
        for b in range(rng.randint(1, 5)):
            n = rng.choice([1, 4, 11, 40])
            data = {}
            for c in cols:
                if rng.random() < 0.4:      # repeats first, many new values afterwards (later parts of one batch meet a nearly full counter)
                    k0 = rng.randint(1, n)
                    data[c] = [vocab[c][0]] * k0 + [rng.choice(vocab[c]) for _ in range(n - k0)]
                else:
                    data[c] = [rng.choice(vocab[c]) for _ in range(n)]
            df = pd.DataFrame(data, columns=cols)
            ok, _ = sh.call('counter-never-overcounts', 'compute_cardinalities', cr.compute_cardinalities, df, pipe.NullPbar(), bound)
            if not ok:
                break
            for c in cols:
                truth[c].update(data[c])
                got = dict(cr.GLOBAL_COUNTS_STORAGE[c].default_counter)
                wit = lambda: {'bound': bound, 'column': c, 'batch': b + 1, 'rows_of_batch': data[c][:40], 'tracked': got, 'true_counts': dict(truth[c])}  # noqa: E731
                sh.check('counter-never-overcounts', all(v <= truth[c].get(k, 0) for k, v in got.items()), 'pipeline:tracked-count-above-true-count', wit)
                sh.check('counter-at-most-bound-keys', len(got) <= bound, 'pipeline:tracks-more-than-bound-keys', wit)
                if len(truth[c]) < bound:
                    sh.check('counter-exact-below-bound', got == dict(truth[c]), 'pipeline:inexact-below-bound', wit)
                hit = hit or len(got) >= bound
        sh.case(('counter-pipe', part, t), hit, 'counter-in-pipeline/' + ('bound-reached' if hit else 'below-bound'))
