"""C06 - the rank graph covers exactly the requested pairs, in both orientations (set-model monitor at the batch boundary)."""
from __future__ import annotations

import itertools

from vf import core, gen, pipe

PROPERTY = 'C06'
RULE = ('cases = one call of mixed_rank_graph (or compute_batch_ranking) on a frame with k columns: exhaustive k<=5 (quick) / k<=6 '
        '(thorough) x every label position x {target-only, pairwise} x {scoring, 3mr, Constant} x every cap in 1..|list|+1; random '
        'k in 1..40 with hostile column names (spaces, unicode, names containing " AND ", names equal up to case, relation columns '
        '"a AND_REL b", base features together with their own " AND " interaction names), label anywhere and under other names, caps {1, 2, |set|-1, |set|, |set|+k, 10^6}; reference-model (prior) heuristics with a reference JSON; 150-column frames (> 10^4 candidate pairs) with caps above 10^4 for 3MR and non-3MR heuristics. The sampler is wrapped to '
        'record the candidate list offered and the pool records the tasks actually evaluated. distinct = (k, label position, mode, '
        'heuristic class, cap regime, names hash); non-trivial = at least 2 columns. Through compute_batch_ranking also with --feature_set_focus '
        '(batch feature space = named columns that exist + label).')
REQUIRED = {'both-orientations': 100, 'requested-set': 100, 'cap-before-evaluation': 50, 'names-in-frame': 100, 'constant-once': 20}
EXHAUSTIVE_NOTE = {'quick': 'k<=5 columns x every label position x 2 modes x 3 heuristic classes x every cap in 1..|list|+1',
                   'thorough': 'k<=6 columns x every label position x 2 modes x 3 heuristic classes x every cap in 1..|list|+1'}
ASSUMPTIONS = ['3MR + pairwise mode: self-pairs of relation columns (rel, rel) are optional (DESIGN.md section 1)',
               'pairwise mode offers each non-label diagonal pair twice; a diagonal pair may therefore be evaluated twice (rows repeat), which the statement does not forbid']
WARM = [{}]
WARM_CODE = 'import outrank.core_ranking'

HOSTILE = ['BRAND_RELEVANCE', 'OPERAND_REL', 'xAND_RELy', 'a b', ' lead', 'trail ', 'é', '中文', 'x AND y', 'AND', 'Label', 'LABEL', 'label ', 'a,b', 'a-b', '(1; 100)', 'f-(3; 100)', '', 'a\tb', '0', '00', 'nan', 'None']


def plan(tier, seed):
    shards = []
    k = 5 if tier == 'quick' else 12
    for i in range(k):
        shards.append({'name': 'exhaustive-%d' % i, 'fn': 'shard_exhaustive', 'args': {'part': i, 'parts': k, 'kmax': 5 if tier == 'quick' else 6}})
    r = 5 if tier == 'quick' else 32
    for i in range(r):
        shards.append({'name': 'random-%d' % i, 'fn': 'shard_random', 'args': {'part': i, 'parts': r}})
    shards.append({'name': 'prior-and-large', 'fn': 'shard_prior_and_large', 'args': {}})
    shards.append({'name': 'args-reuse', 'fn': 'shard_args_reuse', 'args': {}})
    return shards


def requested_model(columns, label, mode_target_only, is3mr):
    """(required set of unordered pairs, optional set). A pair is a frozenset of one or two column names."""
    cols = list(columns)
    P = lambda a, b: frozenset((a, b))  # noqa: E731
    optional = set()
    if is3mr:
        rel = [c for c in cols if ' AND_REL ' in c]
        non = [c for c in cols if ' AND_REL ' not in c]
        req = {P(a, b) for a, b in itertools.combinations_with_replacement(sorted(set(non)), 2)}
        req |= {P(c, label) for c in rel}
        if not mode_target_only:
            optional = {P(c, c) for c in rel}
    elif mode_target_only:
        req = {P(c, label) for c in cols}
    else:
        req = {P(a, b) for a, b in itertools.combinations_with_replacement(cols, 2)}
    return req, optional


class Harness:
    def __init__(self, sh):
        self.sh = sh
        self.cr = pipe.fresh_core_ranking()
        self.offered = []
        self.selected = []
        real = self.cr.prior_combinations_sample

        def wrapped(combinations, args):
            self.offered.append(list(combinations))
            out = real(combinations, args)
            self.selected.append(list(out))
            return out
        self.cr.prior_combinations_sample = wrapped

    def run(self, frame, args, via='mixed_rank_graph'):
        self.offered, self.selected = [], []
        pool = CountingPool()
        if via == 'mixed_rank_graph':
            ok, out = self.sh.call('requested-set', 'mixed_rank_graph', self.cr.mixed_rank_graph, frame, args, pool, pipe.NullPbar())
            cols = list(frame.columns)
        else:
            cap = {}
            real = self.cr.mixed_rank_graph

            def hooked(input_dataframe, *a, **k):
                cap['cols'] = list(input_dataframe.columns)
                return real(input_dataframe, *a, **k)
            self.cr.mixed_rank_graph = hooked
            try:
                rows = frame.values.tolist()
                ok, res = self.sh.call('requested-set', 'compute_batch_ranking', self.cr.compute_batch_ranking, rows, set(), args, pool, list(frame.columns), pipe.ListLogger(), pipe.NullPbar())
            finally:
                self.cr.mixed_rank_graph = real
            out = res[0] if ok else None
            cols = cap.get('cols', list(frame.columns))
        return ok, out, cols, pool


class CountingPool(pipe.SyncPool):
    def __init__(self):
        super().__init__()
        self.tasks = []

    def observe(self, items):
        self.tasks.append(list(items))


def verify(sh, h, cols, label, target_only, heuristic, cap_arg, out, pool, via, exclude=()):
    is3mr = '3mr' in heuristic
    constant = heuristic == 'Constant'
    cap = min(cap_arg, 10 ** 4) if is3mr else cap_arg
    req, optional = requested_model(cols, label, target_only, is3mr)
    if exclude:
        # reference-model mode: pairs touching a reference feature are not candidates at all
        req = {p for p in req if not (set(p) & set(exclude))}
        optional = {p for p in optional if not (set(p) & set(exclude))}
    rows = list(out.triplet_scores)
    colset = set(cols)
    wit = lambda **kw: dict(kw, via=via, columns=cols, label=label, target_only=target_only, heuristic=heuristic, cap=cap_arg, n_rows=len(rows), rows_head=[[a, b, float(s)] for a, b, s in rows[:12]])  # noqa: E731
    # names
    bad = [(a, b) for a, b, _ in rows if a not in colset or b not in colset]
    sh.check('names-in-frame', not bad, 'row-mentions-unknown-column', lambda: wit(unknown=bad[:5]))
    E = {frozenset((a, b)) for a, b, _ in rows}
    # the sampler call that belongs to the pair list is the last one (compute_combined_features also samples, earlier)
    offered = h.offered[-1] if h.offered else None
    if offered is None:
        # the sampler was never consulted: still, nothing may be missing from the rank graph
        sh.check('requested-set', E >= req and not (E - req - optional), 'requested-pair-not-evaluated', lambda: wit(missing=sorted(map(sorted, req - E))[:8], note='sampler not reached'))
        return
    offered_set = {frozenset(c) for c in offered}
    ok_req = req <= offered_set and offered_set <= (req | optional)
    sh.check('requested-set', ok_req, 'offered-pairs!=requested-pairs',
             lambda: wit(missing=sorted(map(sorted, req - offered_set))[:8], extra=sorted(map(sorted, offered_set - req - optional))[:8]))
    n_off = len(offered)
    n_expected_evals = min(cap, n_off)
    # evaluated pairs: subset of the offered ones, exactly min(cap, offered) evaluations, all of them when the cap does not bind
    sh.check('requested-set', E <= offered_set, 'evaluated-pair-not-requested', lambda: wit(extra=sorted(map(sorted, E - offered_set))[:8]))
    if cap >= n_off:
        sh.check('requested-set', E >= req, 'requested-pair-not-evaluated', lambda: wit(missing=sorted(map(sorted, req - E))[:8]))
    if constant:
        n_evals = len(rows)
        per = {}
        for a, b, s in rows:
            per.setdefault(frozenset((a, b)), []).append((a, b, s))
        bad = {tuple(sorted(k)): v for k, v in per.items() if any(float(x[2]) != 0.0 for x in v) or (len(k) == 2 and len(v) != 1) or (len(k) == 1 and len(v) > 2)}
        sh.check('constant-once', not bad, 'constant-pair-listed-twice-or-nonzero', lambda: wit(bad={str(k): v for k, v in list(bad.items())[:5]}))
    else:
        n_evals = len(rows) // 2
        # both orientations with identical scores: multiset of (a,b,s) closed under swapping
        from collections import Counter
        ms = Counter((a, b, repr(float(s))) for a, b, s in rows)
        unbalanced = [(a, b, s) for (a, b, s), c in ms.items() if ms.get((b, a, s), 0) != c]
        odd_diag = [(a, b, s) for (a, b, s), c in ms.items() if a == b and c % 2]
        sh.check('both-orientations', not unbalanced and not odd_diag and len(rows) % 2 == 0, 'orientation-missing-or-score-differs',
                 lambda: wit(unbalanced=unbalanced[:6], odd_diagonal=odd_diag[:6]))
        evaluated_tasks = sum(len(t) for t in pool.tasks)
        sh.check('cap-before-evaluation', evaluated_tasks == n_evals and evaluated_tasks <= cap, 'evaluated-more-than-reported-or-than-cap',
                 lambda: wit(tasks_evaluated=evaluated_tasks, reported_evaluations=n_evals))
    sh.check('cap-before-evaluation', n_evals == n_expected_evals, 'number-of-evaluations!=min(cap,offered)', lambda: wit(evaluations=n_evals, offered=n_off, expected=n_expected_evals))


def make_frame(cols, nrows, nprng):
    import pandas as pd
    data = {}
    for i, c in enumerate(cols):
        data[c] = ['v%d' % v for v in nprng.integers(0, 2 + i % 3, nrows)]
        if i % 4 == 3 or nprng.random() < 0.15:
            data[c] = ['const'] * nrows          # a column that is constant inside the batch (Pearson is NaN there, the pair is still listed)
    return pd.DataFrame(data, columns=cols)


def shard_exhaustive(sh, part, parts, kmax):
    h = Harness(sh)
    nprng = sh.nprng('exh')
    jobs = []
    for k in range(1, kmax + 1):
        for pos in range(k):
            for target_only in (True, False):
                for hclass in ('scoring', '3mr', 'Constant'):
                    jobs.append((k, pos, target_only, hclass))
    for t, (k, pos, target_only, hclass) in enumerate(gen.chunks(jobs, parts)[part]):
        cols = ['f%d' % i for i in range(k - 1)]
        if hclass == '3mr' and k >= 4:
            cols[-1] = 'f0 AND_REL f1'
        cols.insert(pos, 'label')
        heuristic = {'scoring': 'max-value-coverage', '3mr': 'MI-numba-3mr', 'Constant': 'Constant'}[hclass]
        frame = make_frame(cols, 12, nprng)
        # size of the list = observed from an uncapped run
        args = pipe.make_args(heuristic=heuristic, target_ranking_only=str(target_only), combination_number_upper_bound=10 ** 6)
        ok, out, fcols, pool = h.run(frame, args)
        if not ok:
            continue
        L = len(h.offered[-1])
        verify(sh, h, fcols, 'label', target_only, heuristic, 10 ** 6, out, pool, 'mixed_rank_graph')
        for cap in range(1, L + 2):
            args = pipe.make_args(heuristic=heuristic, target_ranking_only=str(target_only), combination_number_upper_bound=cap)
            ok, out, fcols, pool = h.run(frame, args)
            if ok:
                verify(sh, h, fcols, 'label', target_only, heuristic, cap, out, pool, 'mixed_rank_graph')
                sh.case((k, pos, target_only, hclass, cap), k >= 2, 'exhaustive/%s/%s' % (hclass, 'target-only' if target_only else 'pairwise'),
                        sample={'columns': cols, 'mode': 'target-only' if target_only else 'pairwise', 'heuristic': heuristic, 'cap': cap, 'offered': L,
                                'rows': [[a, b, float(s)] for a, b, s in out.triplet_scores[:6]]} if (t % 9 == 0 and cap == 2) else None)


def shard_random(sh, part, parts):
    h = Harness(sh)
    rng, nprng = sh.rng('rnd', part), sh.nprng('rnd', part)
    reps = 40 if sh.tier == 'quick' else 800
    for t in range(reps):
        k = rng.choice([1, 2, 3, 5, 8, 13, 20, 40]) if t % 3 else rng.randint(1, 40)
        hclass = rng.choice(['scoring', 'scoring', '3mr', 'Constant'])
        label = rng.choice(['label', 'label', 'click', 'Label', 'y AND z', 'é'])
        pool_names = [n for n in HOSTILE if n != label] + ['c%d' % i for i in range(60)]
        names = rng.sample(pool_names, k - 1) if k > 1 else []
        via = 'mixed_rank_graph'
        if t % 10 == 7 and len(names) >= 3:
            # a column whose name is the empty string (a CSV written with its index has one) among the parents of 3MR relation features
            hclass = '3mr'
            if '' not in names:
                names[0] = ''
            names.sort(key=lambda n_: n_ != '')            # the empty name first: it becomes a parent of the relation features built below
        if hclass == '3mr' and len(names) >= 3:
            base = [n for n in names if ' AND ' not in n][:4]
            nrel = rng.randint(1, min(3, len(names) - 2))
            rels = []
            for a, b in list(itertools.combinations(base, 2))[:nrel]:
                rels.append('%s AND_REL %s' % (a, b))
            names = names[:len(names) - len(rels)] + rels
            rng.shuffle(names)
        if t % 5 == 4 and hclass != '3mr':
            # names as the tool builds them itself: base features plus their ' AND ' interactions (pairs such as
            # ('a AND b', 'c') and ('a', 'b AND c') must stay distinct)
            base = ['a', 'b', 'c', 'd'][:rng.choice([3, 3, 4])]
            names = base + [' AND '.join(c) for c in itertools.combinations(base, 2)]
            if rng.random() < 0.5:
                names += [' AND '.join(c) for c in itertools.combinations(base, 3)]
            rng.shuffle(names)
            k = len(names) + 1
        cols = list(names)
        cols.insert(rng.randrange(len(cols) + 1), label)
        target_only = rng.random() < 0.5
        heuristic = {'scoring': rng.choice(['max-value-coverage', 'MI-numba-randomized', 'correlation-Pearson']), '3mr': 'MI-numba-3mr', 'Constant': 'Constant'}[hclass]
        frame = make_frame(cols, rng.choice([8, 30]), nprng)
        if hclass != '3mr' and k <= 8 and rng.random() < 0.3 and all(c not in ('', 'nan', 'None') for c in cols):
            via = 'compute_batch_ranking'
        req, _ = requested_model(cols, label, target_only, hclass == '3mr')
        S = len(req)
        cap = rng.choice([1, 2, max(1, S - 1), S, S + k, 10 ** 6])
        args = pipe.make_args(heuristic=heuristic, target_ranking_only=str(target_only), combination_number_upper_bound=cap, label_column=label)
        focus = None
        if via == 'compute_batch_ranking' and k >= 3 and rng.random() < 0.5 and all(',' not in c for c in cols):
            # --feature_set_focus narrows the batch's feature space to the named columns (unknown names ignored) plus the label
            focus = rng.sample([c for c in cols if c != label], rng.randint(1, k - 2)) + rng.sample(['not-a-column', 'c999'], rng.randint(0, 2))
            if rng.random() < 0.3:
                focus.append(label)
            rng.shuffle(focus)
            args.feature_set_focus = ','.join(focus)
            S = len(requested_model([c for c in cols if c in focus or c == label], label, target_only, False)[0])
            args.combination_number_upper_bound = cap = rng.choice([1, max(1, S - 1), S, 10 ** 6])
        ok, out, fcols, pool = h.run(frame, args, via)
        if not ok:
            continue
        if focus is not None:
            want = {c for c in cols if c in focus} | {label}
            sh.check('names-in-frame', set(fcols) == want and len(fcols) == len(want), 'feature-set-focus:batch-feature-space!=focus-set+label',
                     lambda: {'columns': cols, 'focus': focus, 'label': label, 'feature_space': fcols})
        verify(sh, h, fcols, label, target_only, heuristic, cap, out, pool, via)
        regime = 'cap<set' if cap < S else ('cap=set' if cap == S else 'cap>set')
        sh.case((k, cols.index(label), target_only, hclass, regime, core.h64(cols)), k >= 2, 'random/%s/%s/%s%s' % (hclass, 'target-only' if target_only else 'pairwise', regime, '/feature-set-focus' if focus is not None else ''),
                sample={'columns': cols, 'label': label, 'heuristic': heuristic, 'cap': cap, 'via': via, 'n_rows': len(out.triplet_scores)} if t % 15 == 0 else None)


def shard_args_reuse(sh):
    """The pipeline hands the same args object to every mini-batch: a batch must leave it as it found it (3MR heuristics may clip the
    cap to 10^4), and a later, wider batch must still get all its requested pairs."""
    h = Harness(sh)
    rng, nprng = sh.rng('reuse'), sh.nprng('reuse')
    for t in range(25 if sh.tier == 'quick' else 100):
        hclass = rng.choice(['scoring', 'Constant', '3mr'])
        heuristic = {'scoring': 'max-value-coverage', 'Constant': 'Constant', '3mr': 'MI-numba-3mr'}[hclass]
        target_only = rng.random() < 0.5
        cap = rng.choice([2 ** 15, 10 ** 6, 40])
        args = pipe.make_args(heuristic=heuristic, target_ranking_only=str(target_only), combination_number_upper_bound=cap)
        widths = sorted(rng.sample(range(2, 9), 3))
        if rng.random() < 0.3:
            widths = widths[::-1]
        for b, k in enumerate(widths):
            cols = ['c%d' % i for i in range(k - 1)] + ['label']
            frame = make_frame(cols, 10, nprng)
            before = dict(vars(args))
            ok, out, fcols, pool = h.run(frame, args)
            if not ok:
                break
            after = dict(vars(args))
            allowed = {'combination_number_upper_bound'} if (hclass == '3mr' and before['combination_number_upper_bound'] > 10 ** 4) else set()
            changed = {k_: (before[k_], after.get(k_)) for k_ in before if after.get(k_) != before[k_] and k_ not in allowed}
            sh.check('requested-set', not changed and set(after) == set(before), 'batch-call-changed-the-shared-args-object', lambda: {'changed': {k_: list(map(repr, v)) for k_, v in changed.items()}, 'batch': b, 'heuristic': heuristic})
            verify(sh, h, fcols, 'label', target_only, heuristic, cap, out, pool, 'mixed_rank_graph(args reused, batch %d)' % b)
            sh.case(('args-reuse', t, b, k, hclass), True, 'args-reuse/' + hclass)


def shard_prior_and_large(sh):
    """(a) reference-model ("prior") heuristics: the cap applies to the candidates that remain after the reference features are
    removed; (b) candidate lists above 10^4: only 3MR heuristics clip the cap to 10^4. Scores come from a stub scorer here -
    this shard is about which pairs are evaluated, not about their values."""
    import json
    import os
    h = Harness(sh)
    cr = h.cr
    rng, nprng = sh.rng('prior'), sh.nprng('prior')
    real_scorer = cr.get_importances_estimate_pairwise
    cr.get_importances_estimate_pairwise = lambda combination, *a_, **k_: (combination[0], combination[1], 0.5)
    try:
        for t in range(30 if sh.tier == 'quick' else 120):
            k = rng.randint(3, 9)
            cols = ['c%d' % i for i in range(k - 1)]
            cols.insert(rng.randrange(k), 'label')
            feats = [c for c in cols if c != 'label']
            ref = rng.sample(feats, rng.randint(1, max(1, len(feats) - 1)))
            path = os.path.join(sh.scratch, 'ref-%d.json' % t)
            with open(path, 'w') as f:
                json.dump({'desc': {'features': ref, 'fields': []}}, f)
            target_only = rng.random() < 0.5
            heuristic = rng.choice(['surrogate-SGD', 'surrogate-SVM', 'surrogate-SGD-RP'])
            req, _ = requested_model(cols, 'label', target_only, False)
            req = {p for p in req if not (set(p) & set(ref))}
            S = len(req)
            cap = rng.choice([1, 2, max(1, S - 1), S, S + 2, 10 ** 6])
            args = pipe.make_args(heuristic=heuristic, target_ranking_only=str(target_only), combination_number_upper_bound=cap, reference_model_JSON=path)
            frame = make_frame(cols, 10, nprng)
            ok, out, fcols, pool = h.run(frame, args)
            if ok:
                verify(sh, h, fcols, 'label', target_only, heuristic, cap, out, pool, 'mixed_rank_graph', exclude=ref)
                sh.case(('prior', k, tuple(ref), target_only, cap), True, 'prior-heuristic/%s' % ('cap<set' if cap < S else 'cap>=set'),
                        sample={'columns': cols, 'reference_features': ref, 'cap': cap, 'candidates_after_filter': S, 'rows': len(out.triplet_scores)} if t % 10 == 0 else None)
        for t, (hclass, cap) in enumerate([('Constant', 10 ** 4 + 50), ('Constant', 2 ** 15), ('3mr', 10 ** 4 + 50), ('3mr', 10 ** 6), ('scoring', 10 ** 4 + 7)]):
            k = 150
            cols = ['c%d' % i for i in range(k - 1)] + ['label']
            heuristic = {'Constant': 'Constant', '3mr': 'MI-numba-3mr', 'scoring': 'MI-numba-randomized'}[hclass]
            frame = make_frame(cols, 4, nprng)
            args = pipe.make_args(heuristic=heuristic, target_ranking_only='False', combination_number_upper_bound=cap)
            ok, out, fcols, pool = h.run(frame, args)
            if ok:
                verify(sh, h, fcols, 'label', False, heuristic, cap, out, pool, 'mixed_rank_graph')
                sh.case(('large', hclass, cap), True, 'more-than-10^4-candidates/' + hclass, sample={'columns': k, 'cap': cap, 'offered': len(h.offered[-1]), 'rows': len(out.triplet_scores)})
    finally:
        cr.get_importances_estimate_pairwise = real_scorer
