"""C09 - results independent of worker count and scheduling, and reproducible (schedule perturbation + differential oracle).

Every run is a fresh interpreter executing the real ranking task with the real pathos process pool. Before the pool forks,
the scoring function the workers call is wrapped so that each task sleeps a pseudo-random time keyed by (delay seed, pair) and
appends (pid, pair, start, end) to an event log: this perturbs the completion order and lets the check prove that different
schedules were actually observed. The oracle compares the (A, B) -> score text of pairwise_ranks.tsv across all runs of a data set.
"""
from __future__ import annotations

import csv
import os
import time

from vf import core, pipe

PROPERTY = 'C09'
RULE = ('cases = one run of the ranking task (fresh process, real process pool) on a generated data set: data sets (pairwise / target-only, '
        'binding cap or not, MI-numba-randomized / max-value-coverage / MI-numba-3mr, 3-6 batches, cardinalities 2..2000) x pool size in '
        '{1,2,3,8,16} (quick) / {1,2,3,4,6,8,12,16} (thorough) x per-task delay seeds x repetitions, each run with its own PYTHONHASHSEED, plus an in-process synchronous reference. '
        'distinct = (data set, pool size, hash of the observed completion order); non-trivial = tasks of the run were executed by >= 2 '
        'worker processes with overlapping execution intervals.')
REQUIRED = {'scores-identical-across-runs': 4, 'schedule-diversity': 1}
ASSUMPTIONS = ['injected delays (0-50 ms per task) perturb completion order without changing what is computed',
               'a run matrix with fewer than 3 distinct completion orders, or a multi-worker run served by one pid, is reported inconclusive']
WARM = [{}]
WARM_CODE = 'import outrank.task_ranking'

DATASETS = {
    'pairwise-randomized-cap': dict(cols=6, rows=1300, B=300, heuristic='MI-numba-randomized', target_only='False', cap=12, cards=[2, 3, 7, 40, 400, 2000]),
    'target-coverage': dict(cols=10, rows=1000, B=320, heuristic='max-value-coverage', target_only='True', cap=10 ** 6, cards=[2, 5, 9, 30, 100, 1000]),
    'pairwise-3mr': dict(cols=5, rows=900, B=290, heuristic='MI-numba-3mr', target_only='False', cap=10 ** 6, cards=[2, 4, 20, 300]),
    'target-randomized-interactions': dict(cols=5, rows=1200, B=280, heuristic='MI-numba-randomized', target_only='True', cap=7, cards=[2, 3, 50, 700], interaction_order=2),
    'pairwise-coverage-many-batches': dict(cols=7, rows=1500, B=240, heuristic='max-value-coverage', target_only='False', cap=20, cards=[2, 6, 60, 600]),
    # reference-model JSON with the default (non-prior) heuristic: combined features come from the JSON, feature vectors arrive as (n, 1) columns
    'reference-json': dict(cols=6, rows=1300, B=300, heuristic='MI-numba-randomized', target_only='False', cap=9, cards=[2, 3, 7, 40], reference=['f1', 'f2,f3', 'f4']),
    # a final partial batch (> 1024 rows, shorter than the full ones): per-process buffers sized by an earlier batch would show here
    'tail-batch': dict(cols=5, rows=2650, B=1500, heuristic='MI-numba-randomized', target_only='False', cap=10 ** 6, cards=[2, 6, 30, 300]),
    # pairwise + sampling ratio < 1 + an identifier-like column that is not the first one (per-pair state written onto shared objects leaks
    # to the later pairs of a worker's chunk), and a column that is constant throughout the first mini-batch and varies afterwards
    # (anything a worker remembers about a feature from an earlier batch)
    'pairwise-subsampled-idlike-late-flag': dict(cols=6, rows=1300, B=300, heuristic='MI-numba-randomized', target_only='False', cap=10 ** 6, cards=[2, 3, 7, 40, 9],
                                                 ratio=0.5, idlike=2, const_first=3),
    'target-randomized-subsampled': dict(cols=12, rows=2000, B=300, heuristic='MI-numba-randomized', target_only='True', cap=10 ** 6, cards=[2, 10, 200, 2000], subsampling=2, ratio=0.6),
}


def plan(tier, seed):
    shards = []
    if tier == 'quick':
        sets = ['pairwise-randomized-cap', 'target-coverage', 'target-randomized-interactions', 'pairwise-3mr', 'target-randomized-subsampled', 'tail-batch', 'reference-json', 'pairwise-subsampled-idlike-late-flag']
        pools, dseeds = [1, 2, 3, 8, 16], [0, 1]
    else:
        sets = list(DATASETS)
        pools, dseeds = [1, 2, 3, 4, 6, 8, 12, 16], [0, 1, 2, 3]
    for ds in sets:
        shards.append({'name': '%s/sync' % ds, 'fn': 'shard_run', 'args': {'ds': ds, 'pool': 0, 'dseed': 0, 'rep': 0}})
        for p in (pools if tier == 'thorough' or ds in sets[:2] or ds == 'pairwise-subsampled-idlike-late-flag' else [1, 3, 8]):
            for d in dseeds:
                if tier == 'thorough' and p in (2, 4, 6, 12) and d > 1:
                    continue
                shards.append({'name': '%s/pool%d/delay%d' % (ds, p, d), 'fn': 'shard_run', 'args': {'ds': ds, 'pool': p, 'dseed': d, 'rep': 0}, 'timeout': 1200})
        shards.append({'name': '%s/pool3/delay0/rep1' % ds, 'fn': 'shard_run', 'args': {'ds': ds, 'pool': 3, 'dseed': 0, 'rep': 1}, 'timeout': 1200})
    # every run gets its own string-hash seed: fresh processes of a real deployment do not share one
    for i, sp in enumerate(shards):
        sp.setdefault('env', {})['PYTHONHASHSEED'] = str(1 + (seed * 131 + i * 7919) % 4294967290)
    return shards


def make_dataset(seed, ds, path):
    import numpy as np
    cfg = DATASETS[ds]
    r = np.random.default_rng([seed, int(core.h64(ds), 16) % (2 ** 31)])
    n, k = cfg['rows'], cfg['cols']
    label = r.integers(0, 2, n)
    header = ['f%d' % i for i in range(k - 1)] + ['label']
    cols = []
    for i in range(k - 1):
        card = cfg['cards'][i % len(cfg['cards'])]
        v = r.integers(0, card, n)
        if i % 2 == 0:
            v = np.where(r.random(n) < 0.5, label * (card - 1), v)
        cols.append(v)
    rows = [['v%d' % cols[c][i] for c in range(k - 1)] + ['c%d' % label[i]] for i in range(n)]
    # a sparse column: one real value plus empty cells (cardinality 1 in the sketches, yet not constant), informative about the label
    sparse = np.where((label == 1) & (r.random(n) < 0.8), 'seen', '')
    for i in range(n):
        rows[i][0] = str(sparse[i])
    if 'idlike' in cfg:
        for i in range(n):
            rows[i][cfg['idlike']] = 'u%05d' % i
    if 'const_first' in cfg:
        for i in range(min(n, cfg['B'])):
            rows[i][cfg['const_first']] = 'off'
    os.makedirs(path, exist_ok=True)
    pipe.write_csv(os.path.join(path, 'data.csv'), header, rows)
    return cfg


def shard_run(sh, ds, pool, dseed, rep):
    import outrank.task_ranking as tr
    cr = pipe.fresh_core_ranking()
    tr.estimate_importances_minibatches = cr.estimate_importances_minibatches
    dpath = os.path.join(sh.scratch, 'data')
    cfg = make_dataset(sh.seed, ds, dpath)
    out_dir = os.path.join(sh.scratch, 'out')
    log_path = os.path.join(sh.scratch, 'events.log')
    real = cr.get_importances_estimate_pairwise

    def delayed(combination, *a, **k):
        t0 = time.time()
        d = int(core.h64((dseed, combination)), 16) % 50 / 1000.0
        time.sleep(d)
        out = real(combination, *a, **k)
        t1 = time.time()
        fd = os.open(log_path, os.O_WRONLY | os.O_APPEND | os.O_CREAT, 0o644)
        os.write(fd, ('%d\t%s\t%.6f\t%.6f\n' % (os.getpid(), '|'.join(map(str, combination)), t0, t1)).encode())
        os.close(fd)
        return out
    if pool > 0:
        cr.get_importances_estimate_pairwise = delayed   # installed before the pool forks: inherited by every worker
    else:
        tr.Pool = lambda *a_, **k_: pipe.SyncPool()
    ref_json = ''
    if cfg.get('reference'):
        import json
        ref_json = os.path.join(sh.scratch, 'reference_model.json')
        with open(ref_json, 'w') as f:
            json.dump({'desc': {'features': cfg['reference'], 'fields': []}}, f)
    args = pipe.make_args(data_path=dpath, output_folder=out_dir, minibatch_size=cfg['B'], reference_model_JSON=ref_json,
                          disable_tqdm='False' if (dseed == 1 or rep == 1) else 'True',       # the banner / tip / progress output must not influence results
                          heuristic=cfg['heuristic'], target_ranking_only=cfg['target_only'],
                          combination_number_upper_bound=cfg['cap'], num_threads=max(1, pool), interaction_order=cfg.get('interaction_order', 1),
                          subsampling=cfg.get('subsampling', 1), mi_stratified_sampling_ratio=cfg.get('ratio', 1.0), include_cardinality_in_feature_names='True')
    t0 = time.time()
    ok, _ = sh.call('scores-identical-across-runs', 'outrank_task_conduct_ranking', tr.outrank_task_conduct_ranking, args)
    if not ok:
        return
    rows = []
    with open(os.path.join(out_dir, 'pairwise_ranks.tsv'), newline='') as f:
        r = csv.reader(f, delimiter='\t')
        hdr = next(r)
        for row in r:
            rows.append((row[hdr.index('FeatureA')], row[hdr.index('FeatureB')], row[hdr.index('Score')]))
    smap = {}
    dup = False
    for a, b, s in rows:
        if (a, b) in smap:
            dup = True
        smap[(a, b)] = s
    events = []
    if os.path.exists(log_path):
        for line in open(log_path):
            pid, comb, a, b = line.rstrip('\n').split('\t')
            events.append((int(pid), comb, float(a), float(b)))
    pids = sorted({e[0] for e in events})
    ev = sorted(events, key=lambda e: e[2])
    overlaps = 0
    for i in range(len(ev)):
        j = i + 1
        while j < len(ev) and ev[j][2] < ev[i][3]:
            if ev[j][0] != ev[i][0]:
                overlaps += 1
            j += 1
    order_hash = core.h64([e[1] for e in sorted(events, key=lambda e: e[3])]) if events else 'sync'
    sh.data['run'] = {'ds': ds, 'pool': pool, 'dseed': dseed, 'rep': rep, 'map': sorted([list(k) + [v] for k, v in smap.items()]), 'duplicate_keys': dup,
                      'tasks': len(events), 'pids': len(pids), 'overlaps': overlaps, 'order_hash': order_hash, 'own_pid_ran_tasks': os.getpid() in pids}
    sh.notes['run'] = {'pool': pool, 'tasks': len(events), 'worker_pids': len(pids), 'overlapping_task_pairs': overlaps, 'completion_order_hash': order_hash, 'rows': len(rows), 'wall_s': round(time.time() - t0, 1)}
    sh.case((ds, pool, order_hash), len(pids) >= 2 and overlaps > 0, '%s/pool=%s' % (ds, pool if pool else 'sync'),
            sample={'data_set': ds, 'pool': pool, 'delay_seed': dseed, 'tasks': len(events), 'worker_pids': len(pids), 'overlapping_task_pairs': overlaps,
                    'completion_order_hash': order_hash, 'first_rows': rows[:3]})


def post(merged, tier, seed):
    runs = {}
    for name, d in merged['data'].items():
        if 'run' in d:
            runs.setdefault(d['run']['ds'], []).append((name, d['run']))
    if not runs:
        merged['inconclusive'].append('no run completed')
        return
    orders = set()
    multi = []
    for ds, lst in runs.items():
        ref_name, ref = next(((n, r) for n, r in lst if r['pool'] == 0), lst[0])
        refmap = {(a, b): s for a, b, s in ref['map']}
        for name, r in lst:
            if r['pool'] > 0:
                orders.add((ds, r['order_hash']))
                if r['pool'] >= 2 and r['tasks'] >= 8:
                    multi.append((name, r['pids'] >= 2, r['tasks']))
            if name == ref_name:
                continue
            m = {(a, b): s for a, b, s in r['map']}
            if m == refmap and not r['duplicate_keys']:
                core.post_ok(merged, 'scores-identical-across-runs')
            else:
                diff = [(k, refmap.get(k), m.get(k)) for k in sorted(set(refmap) | set(m)) if refmap.get(k) != m.get(k)][:8]
                core.post_fail(merged, 'scores-identical-across-runs', 'scores-differ-between-runs', name,
                               {'data_set': ds, 'reference_run': ref_name, 'this_run': {k: r[k] for k in ('pool', 'dseed', 'rep', 'pids', 'overlaps', 'order_hash')},
                                'differences(pair, reference, this)': diff, 'n_pairs': [len(refmap), len(m)], 'duplicate_keys': r['duplicate_keys']})
    # concurrency is a property of the run matrix: on a loaded machine one short run may be served by the first worker alone before the
    # others have started; the matrix is inconclusive only when that is common (more than a quarter of the multi-worker runs)
    single = [(n_, t_) for n_, ok_, t_ in multi if not ok_]
    merged['notes']['multi_worker_runs'] = len(multi)
    merged['notes']['multi_worker_runs_served_by_one_pid'] = [n_ for n_, _ in single]
    if multi and len(single) > max(1, len(multi) // 4):
        merged['inconclusive'].append('%d of %d multi-worker runs were served by a single worker pid (e.g. %s: %d tasks)' % (len(single), len(multi), single[0][0], single[0][1]))
    merged['notes']['distinct_completion_orders'] = len(orders)
    if len(orders) >= 3:
        core.post_ok(merged, 'schedule-diversity', len(orders))
    else:
        merged['inconclusive'].append('only %d distinct completion orders observed (< 3)' % len(orders))
