"""C20 - derived synthetic structure (correlation, duplicates, combinations, labels, noise, down-sampling) is as declared."""
from __future__ import annotations

import math

from vf import core, gen, pipe

PROPERTY = 'C20'
RULE = ('cases = one call of a generator method on a generated data set (n <= 600 quick / 2000 thorough for the n x n projector; columns with '
        'different value domains): generate_correlated with r in {+-0.99, +-0.5, +-0.1, 0, random} on single / multiple indices; '
        'generate_duplicates and generate_combinations (linear, nonlinear, custom and bitwise functions) incl. their dataset_info records; '
        'generate_labels with harness-supplied tie-free decision functions and with the built-in linear / nonlinear relations, 2..64 classes, p as float / list / ndarray; generate_noise '
        '(categorical and missing, levels 0..0.9, labels 0..k-1); downsample_dataset with sizes 1..min class, with and without reshuffle. '
        'distinct = (method, argument signature); non-trivial = the method changed or added data.')
REQUIRED = {'correlation=r': 40, 'duplicates-exact': 40, 'combination=function': 40, 'info-indices': 80, 'labels-monotone-proportions': 60,
            'noise-budget-own-domain': 60, 'missing-exact-count': 30, 'input-untouched': 60, 'downsample-n-per-class': 60}
ASSUMPTIONS = ['decision functions supplied by the harness are tie-free by construction', 'missing-value markers are representable in the array dtype (-1 for int32 data, -inf for float data)',
               'class distributions are dyadic fractions summing to exactly 1', 'labels passed to generate_noise are 0..k-1']
WARM = None


def plan(tier, seed):
    shards = []
    for i in range(8 if tier == 'quick' else 40):
        shards.append({'name': 'methods-%d' % i, 'fn': 'shard_methods', 'args': {'part': i}})
    return shards


def pearson(a, b):
    n = len(a)
    ma, mb = sum(a) / n, sum(b) / n
    sa = math.sqrt(sum((x - ma) ** 2 for x in a))
    sb = math.sqrt(sum((y - mb) ** 2 for y in b))
    if sa == 0 or sb == 0:
        return float('nan')
    return sum((x - ma) * (y - mb) for x, y in zip(a, b)) / (sa * sb)


def make_data(cc, rng, n):
    """Data set whose columns have different (disjoint) value domains + an all-distinct id column."""
    import numpy as np
    nf = rng.choice([3, 4, 6])
    structure = [(0, list(range(100, 100 + rng.choice([2, 3, 5])))), (1, list(range(200, 200 + rng.choice([2, 4, 7]))))]
    if rng.random() < 0.3:
        structure[1] = (1, [1500000321, 2000000011, 1999999999][:rng.choice([2, 3])])       # hashed-id sized codes (sums exceed int32)
        structure[0] = (0, [1400000007, 2100000001, 900000011][:rng.choice([2, 3])])
    X = cc.generate_data(nf, n, cardinality=rng.choice([3, 5, 8]), structure=structure, ensure_rep=True, seed=rng.randrange(1000))
    return X


def shard_methods(sh, part):
    import numpy as np
    from outrank.algorithms.synthetic_data_generators.cc_generator import CategoricalClassification
    rng, nprng = sh.rng('m', part), sh.nprng('m', part)
    reps = 40 if sh.tier == 'quick' else 400
    nmax = 600 if sh.tier == 'quick' else 2000
    for t in range(reps):
        cc = CategoricalClassification(seed=rng.randrange(100))
        n = rng.choice([8, 30, 120, nmax])
        X = make_data(cc, rng, n)
        nf = X.shape[1]
        X0 = X.copy()

        def untouched(tag):
            sh.check('input-untouched', bool((X == X0).all()) and X.shape == X0.shape, 'input-array-mutated', lambda: {'method': tag})

        # ---- correlated -------------------------------------------------------------------------
        r = rng.choice([0.99, -0.99, 0.5, -0.5, 0.1, -0.1, 0.0, round(rng.uniform(-0.95, 0.95), 3)])
        idx = rng.choice([0, 1, [0], [0, 1], [1, nf - 1], list(range(nf))]) if n <= 600 else rng.choice([0, [1]])
        unit = rng.choice([1, 1, 1e-6, 1e-9]) if n <= 600 else 1
        Xin = X if unit == 1 else X0.astype(float) * unit         # the same data expressed in very small units
        ok, Xc = sh.call('correlation=r', 'generate_correlated', cc.generate_correlated, Xin, np.array(idx) if isinstance(idx, list) and rng.random() < 0.3 else idx, r)
        if ok and unit != 1:
            ids = idx if isinstance(idx, list) else [idx]
            for src, pos in zip(ids, range(nf, nf + len(ids))):
                s_ = Xin[:, src].tolist()
                if len(set(s_)) > 1:
                    got = pearson(s_, Xc[:, pos].tolist())
                    sh.check('correlation=r', abs(got - r) <= 1e-6, 'pearson(source,correlated)!=r', lambda: {'r': r, 'got': got, 'unit': unit, 'n': n, 'source_head': s_[:8]})
            sh.case(('correlated-small-units', n, repr(idx), r, unit), True, 'correlated/unit=%g' % unit)
        elif ok:
            ids = idx if isinstance(idx, list) else [idx]
            added = list(range(nf, nf + len(ids)))
            good_shape = Xc.shape == (n, nf + len(ids)) and bool((Xc[:, :nf] == X0).all())
            sh.check('correlation=r', good_shape, 'correlated:original-columns-changed-or-wrong-shape', lambda: {'shape': Xc.shape, 'indices': ids})
            if good_shape:
                for src, pos in zip(ids, added):
                    s = X0[:, src].astype(float).tolist()
                    if len(set(s)) > 1:
                        got = pearson(s, Xc[:, pos].tolist())
                        sh.check('correlation=r', abs(got - r) <= 1e-6, 'pearson(source,correlated)!=r', lambda: {'r': r, 'got': got, 'source_index': src, 'n': n, 'source_head': s[:12], 'correlated_head': Xc[:12, pos].tolist()})
                info = cc.dataset_info['correlations'][-1]
                rec = np.atleast_1d(info['correlated_indices']).tolist()
                sh.check('info-indices', rec == added and np.atleast_1d(info['feature_indices']).tolist() == ids and info['correlation_factor'] == r, 'dataset_info:correlated-indices!=added-columns',
                         lambda: {'recorded': rec, 'added_positions': added, 'info': repr(info)})
            untouched('generate_correlated')
            sh.case(('correlated', n, repr(idx), r), True, 'correlated', sample={'n': n, 'indices': idx, 'r': r, 'pearson': pearson(X0[:, ids[0]].astype(float).tolist(), Xc[:, nf].tolist())} if t % 5 == 0 else None)

        # ---- duplicates --------------------------------------------------------------------------
        idx = rng.choice([0, nf - 1, [0], [0, 2], [1, 0], list(range(nf)), [2, 2]])
        ok, Xd = sh.call('duplicates-exact', 'generate_duplicates', cc.generate_duplicates, X, np.array(idx) if isinstance(idx, list) and rng.random() < 0.3 else idx)
        if ok:
            ids = idx if isinstance(idx, list) else [idx]
            added = list(range(nf, nf + len(ids)))
            good = Xd.shape == (n, nf + len(ids)) and bool((Xd[:, :nf] == X0).all()) and all(bool((Xd[:, p] == X0[:, s]).all()) for s, p in zip(ids, added))
            sh.check('duplicates-exact', good, 'duplicate-columns!=sources', lambda: {'indices': ids, 'shape': Xd.shape, 'head': Xd[:4].tolist()})
            info = cc.dataset_info['duplicates'][-1]
            rec = np.atleast_1d(info['duplicate_indices']).tolist()
            sh.check('info-indices', rec == added and np.atleast_1d(info['feature_indices']).tolist() == ids, 'dataset_info:duplicate-indices!=added-columns', lambda: {'recorded': rec, 'added_positions': added})
            untouched('generate_duplicates')
            sh.case(('duplicates', n, repr(idx)), True, 'duplicates', sample={'indices': idx, 'recorded': rec} if t % 7 == 0 else None)

        # ---- combinations ------------------------------------------------------------------------
        kind = rng.choice(['linear', 'nonlinear', 'custom', 'xor', 'and', 'or'])
        ids = rng.choice([[0, 1], [0, 2], [1, 2, 0], list(range(nf))])

        def weighted_max(x):
            return np.max(x, axis=1) * 3 - np.min(x, axis=1)
        kwargs, expect, tname = {}, None, kind
        sel = X0[:, ids]
        if kind == 'linear':
            kwargs = {'combination_type': 'linear'} if rng.random() < 0.5 else {}
            expect = sel.sum(axis=1)
        elif kind == 'nonlinear':
            kwargs = {'combination_type': 'nonlinear'}
            expect = np.sin(sel.sum(axis=1))
        elif kind == 'custom':
            kwargs = {'combination_function': weighted_max}
            expect, tname = weighted_max(sel), 'weighted_max'
        else:
            fn = {'xor': cc._xor, 'and': cc._and, 'or': cc._or}[kind]
            kwargs = {'combination_function': fn}
            op = {'xor': np.bitwise_xor, 'and': np.bitwise_and, 'or': np.bitwise_or}[kind]
            expect = sel[:, 0].astype(int)
            for j in range(1, sel.shape[1]):
                expect = op(expect, sel[:, j].astype(int))
            tname = '_' + kind
        ok, Xm = sh.call('combination=function', 'generate_combinations', cc.generate_combinations, X, ids, **kwargs)
        if ok:
            good = Xm.shape == (n, nf + 1) and bool((Xm[:, :nf] == X0).all()) and bool(np.allclose(Xm[:, nf].astype(float), np.asarray(expect, dtype=float), rtol=0, atol=1e-9))
            sh.check('combination=function', good, 'combination!=stated-function', lambda: {'kind': kind, 'indices': ids, 'got_head': Xm[:6, nf].tolist(), 'expected_head': np.asarray(expect)[:6].tolist()})
            info = cc.dataset_info['combinations'][-1]
            sh.check('info-indices', info['combination_ix'] == nf and list(info['feature_indices']) == ids and info['combination_type'] == tname, 'dataset_info:combination-record-wrong', lambda: {'info': repr(info), 'expected_ix': nf, 'expected_type': tname})
            untouched('generate_combinations')
            # a request that fails adds no column, so it must leave no trace in the self-description either
            n_before = len(cc.dataset_info['combinations'])
            try:
                cc.generate_combinations(Xm, [0, 1], None, 'non-linear')      # unknown type: no function selected
                sh.classes['invalid combination type accepted'] += 1
                failed = False
            except Exception:
                failed = True
            if failed:
                sh.check('info-indices', len(cc.dataset_info['combinations']) == n_before, 'dataset_info:failed-combination-left-a-record', lambda: {'records': repr(cc.dataset_info['combinations'])})
            else:
                cc.dataset_info['combinations'] = cc.dataset_info['combinations'][:n_before]
            # chained use: a second combination on the grown data set is recorded at the next position
            ok2, Xm2 = sh.call('combination=function', 'generate_combinations', cc.generate_combinations, Xm, [0, nf], None, 'linear')
            if ok2:
                info2 = cc.dataset_info['combinations'][-1]
                good2 = Xm2.shape == (n, nf + 2) and bool(np.allclose(Xm2[:, nf + 1].astype(float), Xm[:, 0].astype(float) + Xm[:, nf].astype(float), atol=1e-9))
                sh.check('combination=function', good2, 'chained-combination!=stated-function', lambda: {'got_head': Xm2[:6, nf + 1].tolist()})
                sh.check('info-indices', info2['combination_ix'] == nf + 1 and len(cc.dataset_info['combinations']) == 2, 'dataset_info:chained-combination-record-wrong', lambda: {'info': repr(cc.dataset_info['combinations'])})
            sh.case(('combination', n, kind, repr(ids)), True, 'combination/' + kind)

        # ---- labels ------------------------------------------------------------------------------
        perm = nprng.permutation(n).astype(float)

        def tie_free(x):
            # distinct per row: a permutation carried in through the closure plus a bounded function of the row
            return perm * 10.0 + (x[:, 0] % 7) * 0.1

        def tie_free_desc(x):
            return -perm * 3.0 + (x[:, 1] % 5) * 0.01
        dec = rng.choice([tie_free, tie_free_desc])
        ncls = rng.choice([2, 2, 3, 4, 6]) if (n < 200 or rng.random() < 0.7) else rng.choice([23, 31, 51, 55, 12, 64])
        if ncls == 2:
            p = rng.choice([0.5, 0.25, 0.75, 0.125, [0.25, 0.75], np.array([0.625, 0.375])])
            cum = [p if isinstance(p, float) else float(p[0])]
        else:
            mode = rng.choice(['float', 'list', 'ndarray']) if ncls <= 16 else 'float'      # sixteenths only describe up to 16 classes
            if mode == 'float':
                p = 0.5
                cum = [(i + 1) / ncls for i in range(ncls - 1)]
            else:
                parts = [1] * ncls
                for _ in range(16 - ncls):
                    parts[rng.randrange(ncls)] += 1
                pl = [v / 16 for v in parts]
                p = pl if mode == 'list' else np.array(pl)
                cum = [sum(pl[:i + 1]) for i in range(ncls - 1)]
        if n >= ncls * 2:
            ok, y = sh.call('labels-monotone-proportions', 'generate_labels', cc.generate_labels, X, ncls, p, 2, dec)
            if ok:
                y = np.asarray(y)
                d = dec(X0)
                order = np.argsort(d)
                ys = y[order]
                mono = bool((np.diff(ys) >= 0).all()) and set(y.tolist()) <= set(range(ncls)) and len(y) == n
                sh.check('labels-monotone-proportions', mono, 'labels-not-a-monotone-step-function-of-the-decision-value', lambda: {'classes': ncls, 'p': repr(p), 'labels_sorted_by_decision_head': ys[:40].tolist()})
                bad = []
                for c, cp in enumerate(cum):
                    cnt = int((y <= c).sum())
                    if abs(cnt - cp * n) > 1.0 + 1e-9:
                        bad.append((c, cnt, cp * n))
                sh.check('labels-monotone-proportions', not bad, 'class-proportions!=requested-distribution', lambda: {'classes': ncls, 'p': repr(p), 'n': n, 'cumulative(class,count,expected)': bad,
                         'counts': [int((y == c).sum()) for c in range(ncls)]})
                info = cc.dataset_info['labels']
                sh.check('info-indices', info.get('n_class') == ncls and info.get('class_relation') == dec.__name__, 'dataset_info:labels-record-wrong', lambda: {'info': repr(info)})
                untouched('generate_labels')
                sh.case(('labels', n, ncls, repr(p), dec.__name__), True, 'labels/%d-classes/%s' % (ncls, type(p).__name__), sample={'classes': ncls, 'p': repr(p), 'counts': [int((y == c).sum()) for c in range(ncls)], 'n': n} if t % 4 == 0 else None)

        # built-in class relations (no decision function supplied): labels are still a monotone step function of the documented decision value
        for relation, fn in (('linear', lambda x: np.sum(2 * x + 3, axis=1)), ('nonlinear', lambda x: np.sum(2 * np.sin(x) + 2 * np.cos(x), axis=1))):
            ncl = rng.choice([2, 3, 5])
            if n < ncl * 2:
                continue
            ok, yb = sh.call('labels-monotone-proportions', 'generate_labels', cc.generate_labels, X, ncl, 0.5, 2, None, relation)
            if not ok:
                continue
            yb = np.asarray(yb)
            dv = fn(X0)               # the documented formula on the array as given, in its own integer type
            o_ = np.argsort(dv, kind='stable')
            ys_, ds_ = yb[o_], dv[o_]
            # monotone: a larger decision value never gets a smaller label; equal decision values get equal labels
            viol = [(float(ds_[i]), int(ys_[i]), float(ds_[i + 1]), int(ys_[i + 1])) for i in range(len(ys_) - 1) if (ds_[i + 1] > ds_[i] and ys_[i + 1] < ys_[i]) or (ds_[i + 1] == ds_[i] and ys_[i + 1] != ys_[i])]
            sh.check('labels-monotone-proportions', not viol and set(yb.tolist()) <= set(range(ncl)) and len(yb) == n, 'built-in-relation:labels-not-monotone-in-the-decision-value',
                     lambda: {'relation': relation, 'classes': ncl, 'violations': viol[:5]})
            sh.check('info-indices', cc.dataset_info['labels'] == {'class_relation': relation, 'n_class': ncl}, 'dataset_info:labels-record-wrong', lambda: {'info': repr(cc.dataset_info['labels'])})
            sh.case(('labels-builtin', n, ncl, relation), True, 'labels/built-in-' + relation)

        # ---- noise -------------------------------------------------------------------------------
        k = rng.choice([2, 3])
        if n >= 8:
            y = (nprng.permutation(n) % k).astype(int)
            if rng.random() < 0.35:
                y = np.sort(y)                      # data sets are often stored sorted by label
            level = rng.choice([0.0, 0.05, 0.2, 0.5, 0.9])
            ok, Xn = sh.call('noise-budget-own-domain', 'generate_noise', cc.generate_noise, X, y, level, 'categorical')
            if ok:
                budget = int(n * level)
                bad = []
                for j in range(nf):
                    changed = int((Xn[:, j] != X0[:, j]).sum())
                    foreign = sorted(set(Xn[:, j].tolist()) - set(X0[:, j].tolist()))
                    if changed > budget or foreign:
                        bad.append({'feature': j, 'changed': changed, 'budget': budget, 'foreign_values': foreign[:6], 'own_domain': sorted(set(X0[:, j].tolist()))[:10]})
                sh.check('noise-budget-own-domain', Xn.shape == X0.shape and not bad, 'categorical-noise:over-budget-or-foreign-value', lambda: {'level': level, 'n': n, 'problems': bad[:3]})
                untouched('generate_noise(categorical)')
                sh.check('info-indices', cc.dataset_info['noise'][-1] == {'type': 'categorical', 'amount': level}, 'dataset_info:noise-record-wrong', lambda: {'info': repr(cc.dataset_info['noise'][-1])})
                sh.case(('noise-cat', n, level, k), level > 0, 'noise/categorical')
            level = rng.choice([0.0, 0.1, 0.33, 0.9])
            Xf = X0.astype(float) if rng.random() < 0.5 else X0
            if Xf.dtype.kind == 'f' and rng.random() < 0.5:
                Xf = np.ascontiguousarray(Xf)          # a float data set in C order (what down-sampling / categorical noise / user code produce)
            marker = float('-inf') if Xf.dtype.kind == 'f' else -1
            Xf0 = Xf.copy()
            kw = {} if Xf.dtype.kind == 'f' and rng.random() < 0.5 else {'missing_val': marker}
            ok, Xm = sh.call('missing-exact-count', 'generate_noise', cc.generate_noise, Xf, y, level, 'missing', **kw)
            if ok:
                budget = int(n * level)
                counts = [int((Xm[:, j] == marker).sum()) for j in range(nf)]
                others_same = all(bool(((Xm[:, j] == Xf0[:, j]) | (Xm[:, j] == marker)).all()) for j in range(nf))
                sh.check('missing-exact-count', Xm.shape == Xf0.shape and counts == [budget] * nf and others_same, 'missing-noise:marker-count!=floor(p*n)', lambda: {'level': level, 'n': n, 'budget': budget, 'marker_counts': counts})
                sh.check('input-untouched', bool((Xf == Xf0).all()), 'input-array-mutated', lambda: {'method': 'generate_noise(missing)'})
                sh.case(('noise-missing', n, level, str(Xf.dtype)), level > 0, 'noise/missing')

        # ---- down-sampling -----------------------------------------------------------------------
        if n >= 8:
            k = rng.choice([2, 3, 4])
            y = (nprng.permutation(n) % k).astype(int)
            if rng.random() < 0.5:
                y[nprng.choice(n, n // 3, replace=False)] = 0       # imbalanced
            ident = np.arange(n).reshape(-1, 1)                  # a row id column makes membership checkable
            Xi = np.hstack([ident, X0])
            counts = np.bincount(y, minlength=k)
            present = [c for c in range(k) if counts[c] > 0]
            m = int(min(counts[c] for c in present))
            size = rng.choice([None, 1, m, max(1, m // 2)])
            reshuffle = rng.random() < 0.5
            ok, res = sh.call('downsample-n-per-class', 'downsample_dataset', cc.downsample_dataset, Xi, y, size, rng.randrange(100), reshuffle)
            if ok:
                Xs, ys = res
                want = m if size is None else size
                ys = np.asarray(ys)
                per = {c: int((ys == c).sum()) for c in present}
                member = all(int(y[int(row[0])]) == int(lbl) and bool((Xi[int(row[0])] == row).all()) for row, lbl in zip(np.asarray(Xs), ys))
                sh.check('downsample-n-per-class', len(ys) == want * len(present) and all(v == want for v in per.values()) and member and len(Xs) == len(ys), 'downsampling!=n-rows-of-each-class-from-that-class',
                         lambda: {'requested': size, 'expected_per_class': want, 'per_class': per, 'reshuffle': reshuffle, 'rows_belong_to_class': member, 'class_counts': counts.tolist()})
                info = cc.dataset_info.get('downsampling', {})
                sh.check('info-indices', tuple(info.get('original_shape', ())) == Xi.shape and tuple(info.get('downsampled_shape', ())) == np.asarray(Xs).shape, 'dataset_info:downsampling-shapes-wrong', lambda: {'info': repr(info)})
                sh.check('input-untouched', bool((Xi[:, 1:] == X0).all()), 'input-array-mutated', lambda: {'method': 'downsample_dataset'})
                sh.case(('downsample', n, k, size, reshuffle), True, 'downsample/' + ('reshuffle' if reshuffle else 'plain'),
                        sample={'class_counts': counts.tolist(), 'requested': size, 'per_class': per, 'reshuffle': reshuffle} if t % 5 == 0 else None)
