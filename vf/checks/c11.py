"""C11 - feature construction is additive, row-aligned and rule-following (snapshot-before / compare-after wrappers on every
constructor, active while compute_batch_ranking runs every subset of the construction flags, and in direct calls)."""
from __future__ import annotations

import itertools

from vf import core, gen, pipe

PROPERTY = 'C11'
RULE = ('cases = one constructor invocation observed by its wrapper: compute_batch_ranking driven with all 2^5 subsets of the construction '
        'flags (transformers, multi-value expansion, sub-features, interactions, noise controls) x 2 heuristics on generated string frames '
        '(multi-value cells using both "," and "-", empty and missing-symbol tokens, repeated tokens, tokens that are substrings of other '
        'tokens; selector columns with 1..20 values incl. ""), repeated equally sized batches in one process, plus direct calls of each '
        'constructor in shuffled orders. distinct = (constructor, flag subset, frame hash); non-trivial = the constructor added at least '
        'one column.')
REQUIRED = {'additive-row-aligned': 100, 'caller-frame-untouched': 100, 'multivalue-rule': 30, 'subfeature-rule': 30, 'control-target=label': 4, 'constructors-reached': 5, 'interaction-rule': 20}
ASSUMPTIONS = ['frames have a RangeIndex and hold strings (what the pipeline builds from parsed lines)', 'feature names avoid "&", "|" and "-" so that constructed names are unambiguous',
               'with noise controls on, compute_batch_ranking raises later in the cardinality update (float controls cannot be hashed); no property claims that combination, the constructor itself is still observed']
WARM = [{}]
WARM_CODE = 'import outrank.core_ranking'

CONSTRUCTORS = ['enrich_with_transformations', 'compute_expanded_multivalue_features', 'compute_subfeatures', 'compute_combined_features', 'include_noisy_features']


def plan(tier, seed):
    shards = []
    k = 8 if tier == 'quick' else 32
    for i in range(k):
        shards.append({'name': 'flags-%d' % i, 'fn': 'shard_flags', 'args': {'part': i, 'parts': k}})
    d = 3 if tier == 'quick' else 20
    for i in range(d):
        shards.append({'name': 'direct-%d' % i, 'fn': 'shard_direct', 'args': {'part': i}})
    return shards


def tokens_of(cell):
    return cell.replace(',', '-').split('-')


class Wrappers:
    """Installs the monitors on the module attributes of core_ranking."""

    def __init__(self, sh, cr):
        self.sh, self.cr = sh, cr
        self.reached = {}
        self.ctx = {}
        for name in CONSTRUCTORS:
            self._wrap(name)

    def _wrap(self, name):
        real = getattr(self.cr, name)
        sh = self.sh

        def wrapped(input_dataframe, *a, **k):
            before = input_dataframe.copy(deep=True)
            out = real(input_dataframe, *a, **k)
            self.reached[name] = self.reached.get(name, 0) + 1
            self.verify(name, before, input_dataframe, out, a, k)
            return out
        setattr(self.cr, name, wrapped)

    def verify(self, name, before, arg_after, out, a, k):
        sh = self.sh
        old_cols = list(before.columns)
        nrows = len(before)
        wit = lambda **kw: dict(kw, constructor=name, flags=self.ctx.get('flags'), old_columns=old_cols, out_columns=[str(c) for c in out.columns][:60], rows=nrows,  # noqa: E731
                                head=before.head(6).values.tolist())
        prefix_ok = list(out.columns[:len(old_cols)]) == old_cols and len(out) == nrows
        if prefix_ok:
            for i, c in enumerate(old_cols):
                if out.iloc[:, i].tolist() != before.iloc[:, i].tolist():
                    prefix_ok = False
                    break
        sh.check('additive-row-aligned', prefix_ok, 'original-columns-not-preserved', wit)
        new = list(out.columns[len(old_cols):])
        holes = {}
        for j, c in enumerate(new):
            col = out.iloc[:, len(old_cols) + j]
            nn = int(col.isna().sum()) if col.dtype == object or str(col.dtype).startswith(('str', 'float')) else 0
            if len(col) != nrows or (nn and not str(c).startswith('CONTROL-') and '_tr_' not in str(c)):
                holes[str(c)] = nn
        sh.check('additive-row-aligned', not holes and list(out.index) == list(before.index), 'new-column-with-holes-or-shifted-rows', lambda: wit(holes=holes))
        sh.check('caller-frame-untouched', arg_after.equals(before) and list(arg_after.columns) == old_cols, 'caller-frame-mutated', wit)
        args = None
        for x in list(a) + list(k.values()):
            if 'label_column' in getattr(x, '__dict__', {}):      # the args namespace (the logger / progress-bar stand-ins answer to any attribute name)
                args = x
        if name == 'compute_expanded_multivalue_features' and args is not None:
            missing = set(args.missing_value_symbols.split(','))
            expected = {}
            for f in args.explode_multivalue_features.split(';'):
                cells = before[f].tolist()
                toks = set()
                for c_ in cells:
                    toks.update(tokens_of(c_))
                for t in toks - missing:
                    expected['MULTIEX-%s-%s' % (f, t)] = ['1' if t in tokens_of(c_) else '' for c_ in cells]
            got = {str(c): out[c].tolist() for c in new}
            bad = [c for c in expected if got.get(c) != expected[c]]
            sh.check('multivalue-rule', set(got) == set(expected) and not bad, 'multi-value-indicator!=token-membership',
                     lambda: wit(wrong_columns=bad[:4], missing_columns=sorted(set(expected) - set(got))[:4], extra_columns=sorted(set(got) - set(expected))[:4],
                                 example={bad[0]: {'got': got[bad[0]][:20], 'expected': expected[bad[0]][:20]}} if bad else None))
        if name == 'compute_subfeatures' and args is not None:
            expected = {}
            for pair in args.subfeature_mapping.split(';'):
                if '<->' in pair:
                    f1, f2 = pair.split('<->')
                    A, B = before[f1].tolist(), before[f2].tolist()
                    for vb in dict.fromkeys(B):
                        for va in dict.fromkeys(A):
                            expected['SUBFEATURE|%s|%s-%s&%s' % (f1, f2, va, vb)] = ['1' if (x == va and y == vb) else '0' for x, y in zip(A, B)]
                else:
                    f1, f2 = pair.split('->')
                    A, B = before[f1].tolist(), before[f2].tolist()
                    for vb in dict.fromkeys(B):
                        expected['SUBFEATURE-%s&%s' % (f1, vb)] = [x + 'AND' + y if y == vb else '' for x, y in zip(A, B)]
            got = {str(c): out[c].tolist() for c in new}
            bad = [c for c in expected if got.get(c) != expected[c]]
            sh.check('subfeature-rule', set(got) == set(expected) and not bad, 'sub-feature!=stated-rule',
                     lambda: wit(wrong_columns=bad[:4], missing_columns=sorted(set(expected) - set(got))[:4], extra_columns=sorted(set(got) - set(expected))[:4],
                                 example={bad[0]: {'got': got[bad[0]][:20], 'expected': expected[bad[0]][:20]}} if bad else None))
        if name == 'compute_combined_features':
            # rule of interaction columns: equal values exactly on rows that agree on every constituent
            for c in new:
                for join in (' AND_REL ', ' AND '):
                    parts = str(c).split(join)
                    if len(parts) > 1 and all(p_ in before.columns for p_ in parts):
                        tuples = list(zip(*[before[p_].tolist() for p_ in parts]))
                        vals = out[c].tolist()
                        t2v, v2t, bad = {}, {}, None
                        for tp, v in zip(tuples, vals):
                            if t2v.setdefault(tp, v) != v:
                                bad = ('same tuple, different values', tp, t2v[tp], v)
                            if v2t.setdefault(v, tp) != tp:
                                bad = ('different tuples, same value', v2t[v], tp, v)
                        sh.check('interaction-rule', bad is None, 'interaction-column-not-faithful-to-constituents', lambda: wit(column=str(c), problem=bad))
                        break
        if name == 'include_noisy_features' and args is not None and args.label_column in before.columns:
            ok = 'CONTROL-target' in out.columns and out['CONTROL-target'].tolist() == before[args.label_column].tolist()
            sh.check('control-target=label', ok, 'CONTROL-target!=label', lambda: wit(control=out['CONTROL-target'].tolist()[:20] if 'CONTROL-target' in out.columns else None, label=before[args.label_column].tolist()[:20]))
        sh.case((name, str(self.ctx.get('flags')), core.h64([old_cols, before.head(50).values.tolist(), nrows])), len(new) > 0, name,
                sample={'constructor': name, 'flags': self.ctx.get('flags'), 'rows': nrows, 'old_columns': old_cols, 'new_columns': [str(c) for c in new[:6]],
                        'first_row': before.iloc[0].tolist() if nrows else None} if self.reached.get(name, 0) in (1, 7) else None)


MV_TOKENS = ['a', 'b', 'ab', 'abc', '1', '12', '21', '3', 'x y', '', '{}', 'é', 'sel', ' a', 'A', '1.5', '105', 'c+d', 'cd', 'u|v', 'u', '(x', 'a*', 'aa', '[b]', '^a', 'a$', '\\d', '7']


def make_frame(rng, nprng, n, max_sel=20):
    """Columns: two numeric-string columns, a multi-value column, selector columns, label."""
    data = {}
    data['num1'] = [rng.choice(['0', '1', '2.5', '10', '100', '7', '', '0.5', '3']) for _ in range(n)]
    data['num2'] = [str(int(v)) for v in nprng.integers(0, 50, n)]
    mv = []
    for _ in range(n):
        k = rng.choice([0, 1, 1, 2, 3, 4])
        toks = [rng.choice(MV_TOKENS) for _ in range(k)]
        sep = rng.choice([',', '-'])
        cell = sep.join(toks)
        if rng.random() < 0.1 and toks:
            cell = cell + rng.choice([',', '-']) + toks[0]   # repeated token
        mv.append(cell)
    data['mv'] = mv
    data['mv2'] = [rng.choice(['p,q', 'q', 'p-r', 'pq', 'r', '']) for _ in range(n)]
    ncard = rng.choice([c for c in (1, 2, 3, 5, 20) if c <= max_sel])
    sel_vals = (['s1', 's1 ', '', ' s1', 's 2', 'AND', 's1s', '1', '0', 'S1'] + ['t%d' % i for i in range(20)])[:max(1, ncard)]
    data['sel'] = [rng.choice(sel_vals) for _ in range(n)]
    data['src'] = [rng.choice(['u', 'v', '', 'uv', 'AND', 'w&', ' ']) for _ in range(n)]
    data['cat'] = [rng.choice(['k1', 'k2', 'k3']) for _ in range(n)]
    if max_sel >= 20:
        # two columns with 12 resp. 13 values: more than 127 value pairs while each side still fits a narrow integer code
        data['w12'] = ['a%d' % rng.randrange(12) for _ in range(n)]
        data['w13'] = ['b%d' % rng.randrange(13) for _ in range(n)]
    data['label'] = [rng.choice(['0', '1']) for _ in range(n)]
    return data


def shard_flags(sh, part, parts):
    import pandas as pd
    cr = pipe.fresh_core_ranking()
    w = Wrappers(sh, cr)
    rng, nprng = sh.rng('flags', part), sh.nprng('flags', part)
    subsets = list(itertools.product([0, 1], repeat=5))
    jobs = [(s, h) for s in subsets for h in ('MI-numba-randomized', 'MI-numba-3mr')]
    import random
    random.Random(sh.seed).shuffle(jobs)
    mine = jobs[part::parts]
    reps = 3 if sh.tier == 'quick' else 50
    for (tr_, mv_, sub_, inter_, noise_), heuristic in mine:
        n = rng.choice([24, 64])
        for rep in range(reps):   # equally sized consecutive batches in one process
            data = make_frame(rng, nprng, n, max_sel=5)
            cols = list(data)
            rng.shuffle(cols)
            flags = {'transformers': 'minimal' if tr_ else 'none', 'explode_multivalue_features': rng.choice(['mv', 'mv;mv2']) if mv_ else 'False',
                     'subfeature_mapping': rng.choice(['src->sel', 'cat<->sel', 'src->sel;cat<->sel', 'cat->src']) if sub_ else 'False',
                     'interaction_order': 2 if inter_ else 1, 'include_noise_baseline_features': 'True' if noise_ else 'False'}
            w.ctx = {'flags': dict(flags, heuristic=heuristic)}
            args = pipe.make_args(heuristic=heuristic, target_ranking_only='True', combination_number_upper_bound=rng.choice([2, 4, 6]) if inter_ else 10 ** 6, **flags)
            rows = [list(r) for r in zip(*[data[c] for c in cols])]
            try:
                cr.compute_batch_ranking(rows, {'num1', 'num2'}, args, pipe.SyncPool(), cols, pipe.ListLogger(), pipe.NullPbar())
            except Exception as e:  # noqa: BLE001
                if noise_:
                    sh.classes['noise-on: pipeline raised after the constructor (%s) - out of scope, see assumptions' % type(e).__name__] += 1
                else:
                    sh.fail('additive-row-aligned', 'compute_batch_ranking:exception:' + type(e).__name__, {'flags': flags, 'exception': repr(e)[:300]})
    for name, cnt in w.reached.items():
        sh.ok('constructors-reached')
        sh.notes.setdefault('constructor_invocations', {})[name] = cnt


def shard_direct(sh, part):
    """Direct calls of the constructors in shuffled orders (each output is the next one's input)."""
    import pandas as pd
    cr = pipe.fresh_core_ranking()
    w = Wrappers(sh, cr)
    rng, nprng = sh.rng('direct', part), sh.nprng('direct', part)
    for rep in range(15 if sh.tier == 'quick' else 60):
        n = rng.choice([1, 2, 7, 40, 150])
        data = make_frame(rng, nprng, n)
        df = pd.DataFrame(data)
        order = CONSTRUCTORS[:]
        rng.shuffle(order)
        args = pipe.make_args(heuristic='MI-numba-randomized', transformers=rng.choice(['minimal', 'default']), explode_multivalue_features=rng.choice(['mv', 'mv2;mv']),
                              subfeature_mapping=rng.choice(['src->sel', 'cat<->sel', 'src<->cat;src->cat', 'w12<->w13', 'w13<->w12;cat->sel']), interaction_order=rng.choice([2, 3]),
                              combination_number_upper_bound=rng.choice([1, 4, 10 ** 6]), include_noise_baseline_features='True')
        w.ctx = {'flags': {'direct-order': order}}
        for name in order:
            if df.shape[1] > 14 and name == 'compute_combined_features':
                args.combination_number_upper_bound = rng.choice([1, 5])
            try:
                if name == 'enrich_with_transformations':
                    df = cr.enrich_with_transformations(df, {'num1', 'num2'}, pipe.ListLogger(), args)
                elif name == 'compute_expanded_multivalue_features':
                    df = cr.compute_expanded_multivalue_features(df, pipe.ListLogger(), args, pipe.NullPbar())
                elif name == 'compute_subfeatures':
                    df = cr.compute_subfeatures(df, pipe.ListLogger(), args, pipe.NullPbar())
                elif name == 'compute_combined_features':
                    df = cr.compute_combined_features(df, args, pipe.NullPbar())
                elif name == 'include_noisy_features':
                    if n >= 2:
                        df = cr.include_noisy_features(df, pipe.ListLogger(), args)
            except Exception as e:  # noqa: BLE001
                if name == 'compute_combined_features' and any(str(df[c].dtype).startswith(('float', 'int')) for c in df.columns):
                    sh.classes['direct: interactions over numeric control columns raised (%s) - out of scope' % type(e).__name__] += 1
                else:
                    sh.fail('additive-row-aligned', name + ':exception:' + type(e).__name__, {'order': order, 'exception': repr(e)[:300], 'columns': [str(c) for c in df.columns][:40]})
                break
    for name in w.reached:
        sh.ok('constructors-reached')
