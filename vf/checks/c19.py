"""C19 - synthetic categorical data respects its declared shape, domains, positions, representation and seed."""
from __future__ import annotations

import csv
import os
import subprocess

from vf import core, gen, pipe

PROPERTY = 'C19'
RULE = ('cases = one call of generate_data (or of the naive generator / generator task): n_features 1..25, n_samples 1..3000 incl. n = |domain| '
        'and |domain| +- 1, cardinalities 1..n, random_values with tight and wide [low, high] bounds, structures mixing ascending single indices '
        'and index lists with every attribute kind (cardinality, value list, value/frequency pair incl. zero frequencies), gaps '
        'before/between/after, seeds 0..50; every call is repeated (same object, new object, after unrelated use of the global RNG, and '
        'in a fresh process) and compared bit for bit. distinct = argument signature; non-trivial = a structure is present, or ensure_rep with '
        'n <= 2*|domain|, or random_values.')
REQUIRED = {'shape-dtype': 200, 'values-in-domain': 200, 'positions': 50, 'ensure-rep': 50, 'seed-reproducible': 200, 'naive-label': 5, 'generator-task-csv': 2, 'fresh-process-reproducible': 1}
ASSUMPTIONS = ['structure indices are ascending and within range (documented usage)', 'explicit value lists hold distinct values (a list with repeats is not a domain declaration; the harness generated one once - false alarm of the generator, corrected)', 'the naive generator is driven with >= 31 features (its needle is column 30)']
WARM = None


def plan(tier, seed):
    shards = []
    for i in range(6 if tier == 'quick' else 36):
        shards.append({'name': 'generate-%d' % i, 'fn': 'shard_generate', 'args': {'part': i}})
    shards.append({'name': 'naive', 'fn': 'shard_naive', 'args': {}})
    shards.append({'name': 'fresh-process', 'fn': 'shard_fresh', 'args': {}})
    if tier == 'thorough':
        shards.append({'name': 'scale', 'fn': 'shard_scale', 'args': {}, 'timeout': 3600})
    return shards


def make_case(rng):
    """Returns (kwargs for generate_data, per-column domain model)."""
    nf = rng.choice([1, 2, 3, 5, 8, 13, 25])
    card = rng.choice([1, 2, 3, 5, 10, 40])
    random_values = rng.random() < 0.3
    low = rng.choice([0, 0, 5, -3])
    if rng.random() < 0.04:
        card, nf = rng.choice([1001, 1002, 1500]), min(nf, 3)     # a default range wider than the default bounds (which only concern random draws)
    high = low + rng.choice([card - 1, card, card + 3, 1000]) if random_values else 1000
    high = max(high, low + card - 1)
    if not random_values and rng.random() < 0.3:
        high = low + max(0, card - rng.choice([2, 3, 40]))        # bounds narrower than the default range: irrelevant when values are not drawn at random
    if random_values and rng.random() < 0.3:
        # bounds ending exactly at 0 / -1 / 1 (falsy and sign boundaries)
        high = rng.choice([0, 0, -1, 1])
        low = high - (card - 1) - rng.choice([0, 1, 20])
    ensure_rep = rng.random() < 0.5
    ns = rng.choice([1, 2, 7, 50, 400, 3000])
    if rng.random() < 0.4 or card > 1000:
        ns = max(1, card + rng.choice([-1, 0, 1]))
    if random_values:
        default_dom = ('random', low, high, card)
    else:
        default_dom = ('set', set(range(low, low + card)))
    domains = [default_dom] * nf
    structure = None
    force_ns = []
    if rng.random() < 0.6 and nf >= 2:
        structure = []
        idx = 0
        while idx < nf and len(structure) < 6:
            idx += rng.choice([0, 0, 1, 2])          # gap before
            if idx >= nf:
                break
            kind = rng.choice(['card', 'values', 'value-freq', 'card'])
            width = rng.choice([1, 1, 2, 3])
            ixs = list(range(idx, min(nf, idx + width)))
            basev = 10000 + 100 * idx
            if kind == 'card':
                c = rng.choice([1, 2, 4, 9])
                attr = c
                dom = ('random', low, high, c) if random_values else ('set', set(range(low, low + c)))
                if random_values and high - low + 1 < c:
                    attr = card
                    dom = default_dom
            elif kind == 'values':
                step = rng.choice([1, 3])
                vals = [basev + j * step for j in range(rng.choice([1, 2, 5]))]          # distinct values: a value list denotes a set
                attr = vals if rng.random() < 0.5 else __import__('numpy').array(vals)
                if rng.random() < 0.3:
                    force_ns.append(len(vals))
                dom = ('set', set(vals))
            else:
                vals = [basev + j for j in range(rng.choice([2, 3, 5]))]
                fr = [rng.choice([0, 1, 2, 5]) for _ in vals]
                if sum(fr) == 0:
                    fr[0] = 1
                attr = [vals, fr]
                dom = ('freq', vals, fr)
            if len(ixs) == 1 and rng.random() < 0.6:
                structure.append((ixs[0], attr))
            else:
                structure.append((ixs, attr))
            for i in ixs:
                domains[i] = dom
            idx = ixs[-1] + 1
        if not structure:
            structure = None
    if force_ns:
        ns = force_ns[0]
    kw = dict(n_features=nf, n_samples=ns, cardinality=card, structure=structure, ensure_rep=ensure_rep, random_values=random_values, low=low, high=high, seed=rng.randrange(51))
    if rng.random() < 0.3:
        kw['k'] = rng.choice([1, 10, 100])
    return kw, domains


def shard_generate(sh, part):
    import numpy as np
    from outrank.algorithms.synthetic_data_generators.cc_generator import CategoricalClassification
    rng = sh.rng('gen', part)
    reps = 250 if sh.tier == 'quick' else 8000
    for t in range(reps):
        kw, domains = make_case(rng)
        cc = CategoricalClassification()
        if rng.random() < 0.5:
            np.random.random(rng.randint(1, 7))          # unrelated use of the global RNG between construction and generation
        import copy
        structure_before = copy.deepcopy(kw['structure'])
        ok, X = sh.call('shape-dtype', 'generate_data', cc.generate_data, **kw)
        if not ok:
            continue
        sh.check('seed-reproducible', repr(kw['structure']) == repr(structure_before), 'structure-argument-modified-by-the-call', lambda: {'before': repr(structure_before)[:300], 'after': repr(kw['structure'])[:300]})
        wit = lambda **k2: dict(k2, kwargs={k: (v if k != 'structure' else repr(v)) for k, v in kw.items()}, head=X[:6].tolist() if hasattr(X, 'tolist') else None)  # noqa: E731
        good_shape = isinstance(X, np.ndarray) and X.shape == (kw['n_samples'], kw['n_features']) and X.dtype == np.int32
        sh.check('shape-dtype', good_shape, 'wrong-shape-or-dtype', lambda: wit(shape=getattr(X, 'shape', None), dtype=str(getattr(X, 'dtype', None))))
        if not good_shape:
            continue
        ns = kw['n_samples']
        for j, dom in enumerate(domains):
            col = set(X[:, j].tolist())
            if dom[0] == 'set':
                allowed, size = dom[1], len(dom[1])
                ok_dom = col <= allowed
                rep_ok = col == allowed
            elif dom[0] == 'freq':
                allowed, size = set(dom[1]), len(dom[1])
                ok_dom = col <= allowed
                rep_ok = col == allowed
                if not kw['ensure_rep']:
                    zero = {v for v, f in zip(dom[1], dom[2]) if f == 0}
                    ok_dom = ok_dom and not (col & zero)
            else:
                _, lo, hi, c = dom
                ok_dom = all(lo <= v <= hi for v in col) and len(col) <= c
                size = c
                rep_ok = len(col) == c
            structured = kw['structure'] is not None and dom is not domains[0] or (kw['structure'] is not None and j in _structured_indices(kw['structure']))
            sh.check('positions' if (kw['structure'] is not None) else 'values-in-domain', ok_dom, 'value-outside-declared-domain' if kw['structure'] is None else 'feature-not-at-declared-position-or-outside-domain',
                     lambda: wit(column=j, values=sorted(col)[:30], domain=repr(dom)[:200]))
            sh.ok('values-in-domain')
            if kw['ensure_rep'] and ns >= size:
                sh.check('ensure-rep', rep_ok, 'domain-value-not-represented', lambda: wit(column=j, values=sorted(col)[:30], domain=repr(dom)[:200], n_samples=ns))
        # reproducibility: same object again, a new object, after unrelated RNG use
        again = []
        ok2, X2 = sh.call('seed-reproducible', 'generate_data', cc.generate_data, **kw)
        again.append(('same-object-second-call', X2 if ok2 else None))
        cc3 = CategoricalClassification(seed=rng.choice([42, 1, kw['seed']]))
        np.random.standard_normal(3)
        ok3, X3 = sh.call('seed-reproducible', 'generate_data', cc3.generate_data, **kw)
        again.append(('new-object-after-rng-use', X3 if ok3 else None))
        if t % 3 == 0:
            # the documented default seed: leaving `seed` out must be just as reproducible
            kd = {k: v for k, v in kw.items() if k != 'seed'}
            okd, D1 = sh.call('seed-reproducible', 'generate_data', cc.generate_data, **kd)
            np.random.random(2)
            okd2, D2 = sh.call('seed-reproducible', 'generate_data', cc.generate_data, **kd)
            if okd and okd2:
                sh.check('seed-reproducible', D1.shape == D2.shape and bool((D1 == D2).all()), 'default-seed-call-not-reproducible', lambda: wit(how='seed argument omitted, called twice', first=D1[:4].tolist(), second=D2[:4].tolist()))
        for tag, Y in again:
            if Y is not None:
                sh.check('seed-reproducible', Y.shape == X.shape and bool((Y == X).all()), 'same-seed-different-data', lambda: wit(how=tag, second_head=Y[:6].tolist()))
        nontrivial = kw['structure'] is not None or kw['random_values'] or (kw['ensure_rep'] and ns <= 2 * kw['cardinality'])
        sh.case(core.h64(repr(kw)), nontrivial, ('structure' if kw['structure'] is not None else 'plain') + ('/random-values' if kw['random_values'] else '') + ('/ensure-rep' if kw['ensure_rep'] else ''),
                sample={'kwargs': {k: repr(v) for k, v in kw.items()}, 'first_rows': X[:3].tolist()} if t % 60 == 0 else None)


def _structured_indices(structure):
    out = set()
    for ix, _ in structure:
        if isinstance(ix, (list, tuple)):
            out.update(ix)
        else:
            out.add(ix)
    return out


def shard_naive(sh):
    import numpy as np
    import pandas as pd
    from outrank.algorithms.synthetic_data_generators import generator_naive
    from outrank.task_generators import outrank_task_generate_data_set
    pipe.quiet()
    rng = sh.rng('naive')
    for t in range(12 if sh.tier == 'quick' else 60):
        nf, size = rng.choice([31, 32, 40, 100]), rng.choice([50, 300, 2000])
        s = rng.randrange(1000)
        np.random.seed(s)
        ok, res = sh.call('naive-label', 'generate_random_matrix', generator_naive.generate_random_matrix, nf, size)
        if not ok:
            continue
        sample, target = res
        wit = lambda **kw: dict(kw, num_features=nf, size=size, head=np.asarray(sample)[:4, 28:33].tolist(), target_head=np.asarray(target)[:8].tolist())  # noqa: E731
        sh.check('shape-dtype', np.asarray(sample).shape == (size, nf) and len(target) == size, 'naive-wrong-shape', wit)
        needle = np.asarray(sample)[:, 30]
        mapping = {}
        functional = True
        for a, b in zip(needle.tolist(), np.asarray(target).tolist()):
            if mapping.setdefault(a, b) != b:
                functional = False
                break
        sh.check('naive-label', functional and set(np.asarray(target).tolist()) <= {0, 1} and len(set(np.asarray(target).tolist())) == 2, 'label-not-a-binary-function-of-the-needle', lambda: wit(mapping=dict(list(mapping.items())[:10])))
        # same RNG state -> same data
        np.random.seed(s)
        sample2, target2 = generator_naive.generate_random_matrix(nf, size)
        sh.check('seed-reproducible', bool((np.asarray(sample2) == np.asarray(sample)).all()) and bool((np.asarray(target2) == np.asarray(target)).all()), 'naive-same-state-different-data', wit)
        # generator task: data.csv = arrays
        name = 'syn-%d' % t
        args = pipe.make_args(generator_type='naive', num_synthetic_features=nf, num_synthetic_rows=size, output_synthetic_df_name=name)
        np.random.seed(s)
        ok, _ = sh.call('generator-task-csv', 'outrank_task_generate_data_set', outrank_task_generate_data_set, args)
        if ok:
            with open(os.path.join(name, 'data.csv'), newline='') as f:
                r = list(csv.reader(f))
            hdr, body = r[0], r[1:]
            exp_hdr = ['f%d' % i for i in range(nf)] + ['label']
            good = hdr == exp_hdr and len(body) == size and all([int(v) for v in row[:-1]] == np.asarray(sample)[i].tolist() and int(row[-1]) == int(target[i]) for i, row in enumerate(body))
            sh.check('generator-task-csv', good, 'data.csv!=generated-arrays', lambda: wit(header=hdr[:5] + hdr[-2:], n_rows=len(body), first_row=body[0][:6] if body else None))
        sh.case(('naive', nf, size, s), True, 'naive', sample={'num_features': nf, 'size': size, 'needle_to_label': dict(list(mapping.items())[:6])} if t < 2 else None)


FRESH = r'''
import sys, hashlib, numpy as np
from outrank.algorithms.synthetic_data_generators.cc_generator import CategoricalClassification
from outrank.algorithms.synthetic_data_generators import generator_naive
cc = CategoricalClassification()
X = cc.generate_data(9, 500, cardinality=7, structure=[(1, [5, 6, 7]), ([3, 4], 3), (6, [[1, 2, 3], [1, 0, 2]])], ensure_rep=True, seed=int(sys.argv[1]))
Y = cc.generate_data(4, 60, cardinality=12, random_values=True, low=0, high=40, seed=int(sys.argv[1]))
s, t = generator_naive.generate_random_matrix(33, 200)
print(hashlib.sha256(X.tobytes() + Y.tobytes()).hexdigest(), hashlib.sha256(np.asarray(s).tobytes() + np.asarray(t).tobytes()).hexdigest())
'''


def shard_fresh(sh):
    """The same call in separate fresh interpreters (different hash seeds) yields the same bits."""
    outs = []
    for i in range(3 if sh.tier == 'quick' else 6):
        env = dict(os.environ, PYTHONHASHSEED=str(i + 1))
        p = subprocess.run([core.PY, '-c', FRESH, str(sh.seed % 1000)], env=env, stdout=subprocess.PIPE, stderr=subprocess.PIPE, timeout=600, text=True)
        if p.returncode != 0:
            sh.fail('fresh-process-reproducible', 'fresh-process:exception', {'stderr': p.stderr[-800:]})
            return
        outs.append(p.stdout.strip().splitlines()[-1])
    sh.check('fresh-process-reproducible', len(set(outs)) == 1, 'fresh-processes-produce-different-data', lambda: {'digests': outs})
    sh.case(('fresh', sh.seed), True, 'fresh-process', sample={'digests': outs[:2]})
    # the command-line generator task, twice, in fresh processes: same file, declared header and row count
    import hashlib
    files = []
    for i in range(2):
        wd = os.path.join(sh.scratch, 'cli-%d' % i)
        os.makedirs(wd, exist_ok=True)
        env = dict(os.environ, PYTHONHASHSEED=str(10 + i))
        p = subprocess.run([core.PY, '-m', 'outrank', '--task', 'data_generator', '--num_synthetic_features', '35', '--num_synthetic_rows', '400', '--output_synthetic_df_name', 'gen_out'],
                           cwd=wd, env=env, stdout=subprocess.PIPE, stderr=subprocess.PIPE, timeout=900, text=True)
        path = os.path.join(wd, 'gen_out', 'data.csv')
        if p.returncode != 0 or not os.path.exists(path):
            sh.fail('generator-task-csv', 'cli-data_generator:failed', {'returncode': p.returncode, 'stderr': p.stderr[-600:]})
            return
        raw = open(path, 'rb').read()
        files.append(hashlib.sha256(raw).hexdigest())
        lines = raw.decode().strip().split('\n')
        good = lines[0].split(',') == ['f%d' % j for j in range(35)] + ['label'] and len(lines) == 401 and all(len(l.split(',')) == 36 for l in lines[1:])
        needle_ok = all(l.split(',')[30] == l.split(',')[35] for l in lines[1:]) and {l.split(',')[35] for l in lines[1:]} == {'0', '1'}
        sh.check('generator-task-csv', good and needle_ok, 'cli-data.csv-wrong-shape-or-label', lambda: {'header': lines[0][:80], 'rows': len(lines) - 1, 'first': lines[1][:120]})
    sh.check('fresh-process-reproducible', files[0] == files[1], 'cli-generator-not-reproducible', lambda: {'sha256': files})
    sh.case(('cli-generator', sh.seed), True, 'cli-data_generator', sample={'sha256': files[0]})


def shard_scale(sh):
    """Scale regimes (thorough): random domains drawn from bounds more than 10^7 wide; the generator task with more than 2^20 rows."""
    import numpy as np
    from outrank.algorithms.synthetic_data_generators.cc_generator import CategoricalClassification
    from outrank.task_generators import outrank_task_generate_data_set
    pipe.quiet()
    kw = dict(n_features=2, n_samples=60, cardinality=5, random_values=True, low=0, high=12500000, ensure_rep=True, seed=7)
    cc = CategoricalClassification()
    ok, A = sh.call('seed-reproducible', 'generate_data', cc.generate_data, **kw)
    import random as _r
    _r.random()
    ok2, B = sh.call('seed-reproducible', 'generate_data', CategoricalClassification().generate_data, **kw)
    if ok and ok2:
        sh.check('seed-reproducible', bool((A == B).all()), 'same-seed-different-data', lambda: {'kwargs': repr(kw), 'first': A[:3].tolist(), 'second': B[:3].tolist()})
        sh.check('values-in-domain', A.min() >= 0 and A.max() <= 12500000 and all(len(set(A[:, j].tolist())) == 5 for j in range(2)), 'value-outside-declared-domain', lambda: {'min': int(A.min()), 'max': int(A.max())})
        sh.case(('wide-bounds', 12500000), True, 'scale/wide-random-bounds', sample={'kwargs': repr(kw), 'first_row': A[0].tolist()})
    n = (1 << 20) + 4096
    name = 'syn-big'
    args = pipe.make_args(generator_type='naive', num_synthetic_features=31, num_synthetic_rows=n, output_synthetic_df_name=name)
    ok, _ = sh.call('generator-task-csv', 'outrank_task_generate_data_set', outrank_task_generate_data_set, args)
    if ok:
        bad, rows = 0, 0
        with open(os.path.join(name, 'data.csv')) as f:
            hdr = f.readline().strip().split(',')
            for line in f:
                p = line.rstrip('\n').split(',')
                rows += 1
                if p[30] != p[31] or len(p) != 32:
                    bad += 1
        sh.check('generator-task-csv', rows == n and bad == 0 and hdr == ['f%d' % i for i in range(31)] + ['label'], 'data.csv:label-not-a-function-of-the-needle-at-scale', lambda: {'rows': rows, 'rows_with_label!=needle': bad})
        os.remove(os.path.join(name, 'data.csv'))
        sh.case(('generator-task', n), True, 'scale/generator-task->2^20-rows', sample={'rows': rows})
