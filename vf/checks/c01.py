"""C01 - plain estimator equals the plug-in Shannon mutual information (reference-model monitor)."""
from __future__ import annotations

from vf import gen, oracles

PROPERTY = 'C01'
RULE = ('cases = (Y, X) int32 code vectors: every pair of set partitions of n rows for n<=6 (quick) / n<=7 (thorough), '
        'plus seeded random joint structures per named class (uniform, zipf, giant+singletons, all-distinct, constant, '
        'functional dependence either way, near-independent, sparse codes up to 2^20-1, self, permuted-self, tiny) at '
        'n from 1 to 10^3 (quick) / 2*10^4 high-cardinality and 10^6 low-cardinality (thorough); a second pass runs under '
        'NUMBA_BOUNDSCHECK=1 and a third with the JIT disabled (the kernels executed by the interpreter; their executed source lines are listed in this file). distinct = (n, multiset of joint counts with marginals); non-trivial = both sides '
        'non-constant and the model MI further than 10*tol from 0 and from both entropies.')
REQUIRED = {'inputs-untouched': 100, 'plugin-mi': 100, 'symmetry': 100, 'bounds': 100, 'self-entropy': 20, 'constant-zero': 5}
EXHAUSTIVE_NOTE = {'quick': 'all pairs of set partitions of n rows, n = 1..6 (Bell(n)^2 pairs each)',
                   'thorough': 'all pairs of set partitions of n rows, n = 1..7'}
ASSUMPTIONS = ['float32 rounding tolerance 2e-5 + 2e-6*|expected| (per-stratum float32 terms, float64 accumulation)',
               'inputs are C-contiguous int32 vectors with codes in [0, 2^20), as the pipeline produces']
WARM = [{}, {'NUMBA_BOUNDSCHECK': '1'}]
WARM_CODE = 'import outrank.algorithms.feature_ranking.ranking_mi_numba'

N_EXH_SHARDS = {'quick': 6, 'thorough': 14}


def plan(tier, seed):
    shards = []
    k = N_EXH_SHARDS[tier]
    for i in range(k):
        shards.append({'name': 'exhaustive-%d' % i, 'fn': 'shard_exhaustive', 'args': {'part': i, 'parts': k, 'nmax': 6 if tier == 'quick' else 7}})
    nr = 6 if tier == 'quick' else 12
    for i in range(nr):
        shards.append({'name': 'random-%d' % i, 'fn': 'shard_random', 'args': {'part': i, 'parts': nr, 'big': False}})
    shards.append({'name': 'random-boundscheck', 'fn': 'shard_random', 'args': {'part': 0, 'parts': 4 if tier == 'quick' else 2, 'big': False},
                   'env': {'NUMBA_BOUNDSCHECK': '1'}})
    # the same kernels run by the interpreter (JIT off): an independent execution of the source, and the only one whose lines the
    # line monitor can see - the evidence lists which kernel lines these cases executed
    shards.append({'name': 'random-interpreted', 'fn': 'shard_random', 'args': {'part': 1, 'parts': nr, 'big': False}, 'env': {'NUMBA_DISABLE_JIT': '1'}})
    for i in range(2 if tier == 'quick' else 6):
        shards.append({'name': 'via-dispatch-%d' % i, 'fn': 'shard_dispatch', 'args': {'part': i}})
    for i in range(3 if tier == 'quick' else 8):
        shards.append({'name': 'huge-stratum-rare-classes-%d' % i, 'fn': 'shard_skew', 'args': {'part': i}})
    if tier == 'thorough':
        for i in range(4):
            shards.append({'name': 'big-%d' % i, 'fn': 'shard_random', 'args': {'part': i, 'parts': 4, 'big': True}})
    return shards


def _estimator():
    import numpy as np
    from outrank.algorithms.feature_ranking import ranking_mi_numba as m
    one = np.float32(1.0)

    def est(Y, X):
        return float(m.mutual_info_estimator_numba(Y, X, one, False))
    return est


def observe_pair(sh, est, Y, X, cls, sample=False):
    """Run the estimator on (Y,X), (X,Y), (X,X), (Y,Y) and compare with the float64 model and its corollaries."""
    import numpy as np
    n = len(X)
    mi = oracles.plugin_mi(Y, X)
    hx, hy = oracles.entropy(X), oracles.entropy(Y)
    wit = lambda **kw: dict(kw, n=n, cls=cls, Y=Y[:300], X=X[:300], model_mi=mi, HX=hx, HY=hy)  # noqa: E731
    Y0, X0 = Y.copy(), X.copy()
    ok, s_yx = sh.call('plugin-mi', 'estimator', est, Y, X)
    if not ok:
        return
    # the caller's vectors are inputs: a label vector is scored against many features in a row
    sh.check('inputs-untouched', bool(np.array_equal(Y, Y0)) and bool(np.array_equal(X, X0)), 'estimator-modified-its-input-arrays',
             lambda: {'n': n, 'cls': cls, 'Y_before': Y0[:40], 'Y_after': Y[:40], 'X_before': X0[:40], 'X_after': X[:40]})
    ok2, s_xy = sh.call('plugin-mi', 'estimator', est, X, Y)
    if not ok2:
        return
    sh.check('plugin-mi', oracles.close32(s_yx, mi), 'score!=plugin-mi', lambda: wit(got=s_yx))
    sh.check('plugin-mi', oracles.close32(s_xy, mi), 'score!=plugin-mi', lambda: wit(got=s_xy, swapped=True))
    sh.check('symmetry', oracles.close32(s_yx, s_xy, 2.0), 'asymmetric', lambda: wit(got=s_yx, got_swapped=s_xy))
    tol = oracles.TOL_ABS + oracles.TOL_REL * max(hx, hy)
    sh.check('bounds', np.isfinite(s_yx) and s_yx >= -tol and s_yx <= min(hx, hy) + tol, 'out-of-bounds', lambda: wit(got=s_yx))
    if hx == 0.0 or hy == 0.0:
        sh.check('constant-zero', abs(s_yx) <= tol and abs(s_xy) <= tol, 'constant-side-nonzero', lambda: wit(got=s_yx, got_swapped=s_xy))
    ok3, s_xx = sh.call('self-entropy', 'estimator', est, X, X.copy())
    if ok3:
        sh.check('self-entropy', oracles.close32(s_xx, hx), 'self-score!=entropy', lambda: wit(got=s_xx))
    nontrivial = hx > 0 and hy > 0 and mi > 10 * tol and min(hx, hy) - mi > 10 * tol
    sh.case(gen.joint_signature(Y, X), nontrivial, cls,
            sample={'n': n, 'class': cls, 'Y': Y[:24], 'X': X[:24], 'score': s_yx, 'model': mi} if sample else None)


def shard_exhaustive(sh, part, parts, nmax):
    import numpy as np
    est = _estimator()
    k = 0
    for n in range(1, nmax + 1):
        P = [np.array(p, dtype=np.int32) for p in gen.rgs(n)]
        mine = gen.chunks(range(len(P)), parts)[part]
        for i in mine:
            for j in range(len(P)):
                k += 1
                observe_pair(sh, est, P[i], P[j], 'exhaustive-n%d' % n, sample=(k % 5000 == 1))
    sh.notes['exhaustive_pairs'] = k


def shard_random(sh, part, parts, big):
    import numpy as np
    est = _estimator()
    rng, nprng = sh.rng('random', part), sh.nprng('random', part)
    if big:
        # cost guard: estimator time ~ n * (#non-singleton strata + #values of Y)
        jobs = [('uniform', 20000), ('zipf', 20000), ('alldistinct-vs-any', 20000), ('giant+singletons', 20000),
                ('near-independent', 200000), ('y=g(x)', 200000), ('uniform', 1000000), ('constant-vs-any', 1000000)]
        jobs = gen.chunks(jobs, parts)[part]
        for cls, n in jobs:
            Y, X = gen.random_pair(rng, nprng, cls, n)
            if n >= 100000:  # low cardinality only (<= 1000 values per side)
                Y, X = (Y % 1000).astype(np.int32), (X % 1000).astype(np.int32)
            observe_pair(sh, est, Y, X, cls + '-big', sample=True)
        return
    sizes = [1, 2, 3, 4, 5, 7, 8, 13, 31, 50, 64, 200, 1000]
    reps = 6 if sh.tier == 'quick' else 25
    todo = [(cls, n, r) for cls in gen.PAIR_CLASSES for n in sizes for r in range(reps)]
    import random
    random.Random(sh.seed).shuffle(todo)  # same order in every shard, each takes its own slice
    for t, (cls, n, r) in enumerate(gen.chunks(todo, parts)[part] if parts > 1 else todo):
        Y, X = gen.random_pair(rng, nprng, cls, n)
        observe_pair(sh, est, Y, X, cls, sample=(t % 400 == 0))


def shard_skew(sh, part):
    """Heavily skewed marginals at large n: a stratum of > 10^5 rows in which many classes have probability ~ 1/n
    (terms of size p*log p with p ~ 1e-6 that an epsilon guard or a float32 underflow would drop)."""
    import numpy as np
    est = _estimator()
    rng, nprng = sh.rng('skew', part), sh.nprng('skew', part)
    reps = 1 if sh.tier == 'quick' else 3
    for rep in range(reps):
        n = rng.choice([130000, 200000, 300000]) if sh.tier == 'quick' else rng.choice([150000, 400000, 1000000])
        if part == 0 and rep == 0:
            n = 1000000          # the top of the stated range, exactly (1/n is a representable threshold candidate)
        n_rare = rng.choice([500, 1500, 3000])
        for layout in ('constant-X', 'two-strata', 'giant+small'):
            Y = np.zeros(n, dtype=np.int32)
            pos = nprng.choice(n, n_rare, replace=False)
            Y[pos] = np.arange(1, n_rare + 1, dtype=np.int32)          # n_rare singleton classes inside one giant class
            if rng.random() < 0.5:
                Y[nprng.choice(n, n // 3, replace=False)] = n_rare + 1   # a second big class
            if layout == 'constant-X':
                X = np.full(n, 3, dtype=np.int32)
            elif layout == 'two-strata':
                X = (nprng.random(n) < 0.5).astype(np.int32)
            else:
                X = np.zeros(n, dtype=np.int32)
                X[nprng.choice(n, n // 50, replace=False)] = nprng.integers(1, 6, n // 50)
            observe_pair(sh, est, Y, X, 'huge-stratum-rare-classes/' + layout, sample=True)
            if n >= 1000000:
                break              # one layout at 10^6 keeps the quick tier short
    # many strata (> 2^13 distinct values) mixing singletons and repeated values, in value order and shuffled
    for rep in range(1 if sh.tier == 'quick' else 3):
        n = rng.choice([40000, 60000])
        kx = rng.choice([12000, 20000])
        X = nprng.integers(0, kx, n).astype(np.int32)
        Y = (X % rng.choice([2, 3, 7])).astype(np.int32)
        if rng.random() < 0.5:
            Y = np.where(nprng.random(n) < 0.1, nprng.integers(0, 5, n), Y).astype(np.int32)
        observe_pair(sh, est, Y, X, 'many-strata-with-singletons', sample=True)
    if part == 2 or sh.tier == 'thorough':
        # high cardinality on both sides at the top of the stated range: (#distinct X) * (#distinct Y) beyond 2^31 (a packed
        # (stratum, class) cell index no longer fits 32 bits), most X values singletons, a few heavy strata carrying the structure
        n = 1000000
        ns = rng.choice([700000, 800000, 900000])
        nheavy = rng.choice([10, 40, 200])
        ncls = rng.choice([3200, 4000, 5000])          # 700000 * 3200 > 2^31
        X = np.empty(n, dtype=np.int32)
        X[:ns] = np.arange(ns, dtype=np.int32) + 1000
        heavy = nprng.integers(0, nheavy, n - ns)
        # the heavy strata carry the largest codes (their dense positions come after all the singletons) - or, sometimes in the thorough tier, the smallest
        X[ns:] = heavy if (sh.tier == 'thorough' and rng.random() < 0.3) else (1 << 20) - 1 - heavy
        Y = nprng.integers(0, ncls, n).astype(np.int32)
        per = max(1, ncls // nheavy)
        Y[ns:] = (heavy * per + nprng.integers(0, per, n - ns)).astype(np.int32)      # inside a heavy stratum only `per` classes occur
        perm = nprng.permutation(n)
        X, Y = X[perm], Y[perm]
        mi = oracles.plugin_mi(Y, X)
        ok, got = sh.call('plugin-mi', 'estimator', est, Y, X)
        if ok:
            sh.check('plugin-mi', oracles.close32(got, mi), 'score!=plugin-mi', lambda: {'got': got, 'model_mi': mi, 'n': n, 'distinct_X': int(ns + nheavy), 'distinct_Y': int(len(np.unique(Y))),
                                                                                       'cls': 'cardinality-product>2^31', 'X': X[:40], 'Y': Y[:40]})
            sh.case(('card-product', ns, nheavy, ncls), True, 'cardinality-product>2^31', sample={'n': n, 'distinct_X': int(ns + nheavy), 'distinct_Y': int(ncls), 'score': got, 'model': mi})
    if part == 1 or sh.tier == 'thorough':
        # more than 2^16 distinct classes on one side
        n = 70000
        Y = nprng.permutation(n).astype(np.int32)
        X = (nprng.random(n) < 0.5).astype(np.int32)
        observe_pair(sh, est, Y, X, 'more-than-2^16-classes', sample=True)


def shard_dispatch(sh, part):
    """The plain score as users obtain it: through the heuristic dispatch (MI-numba-3mr) with 1-D and (n, 1) shaped feature
    vectors, and through get_importances_estimate_pairwise on consecutive frames with the same column names and row count."""
    import types
    import numpy as np
    import pandas as pd
    from outrank.algorithms import importance_estimator as ie
    rng, nprng = sh.rng('dispatch', part), sh.nprng('dispatch', part)
    args = types.SimpleNamespace(heuristic='MI-numba-3mr', mi_stratified_sampling_ratio=1.0, label_column='label', reference_model_JSON='')
    reps = 120 if sh.tier == 'quick' else 600
    n_fixed = rng.choice([64, 200])
    persistent = None
    for t in range(reps):
        cls = rng.choice(gen.PAIR_CLASSES)
        n = n_fixed if t % 2 else rng.choice([2, 5, 30, 200, 1000])
        Y, X = gen.random_pair(rng, nprng, cls, n)
        mi = oracles.plugin_mi(Y, X)
        wit = lambda **kw: dict(kw, cls=cls, n=n, Y=Y[:200], X=X[:200], model_mi=mi)  # noqa: E731
        for shape in ('1d', 'column'):
            first = Y if shape == '1d' else Y.reshape(-1, 1)
            ok, s = sh.call('plugin-mi', 'conduct_feature_ranking', ie.conduct_feature_ranking, first, X, args)
            if ok:
                sh.check('plugin-mi', oracles.close32(s, mi), 'dispatched-score!=plugin-mi', lambda: wit(got=float(s), feature_shape=shape))
        # same column names, same number of rows, different content than the previous frame
        if t % 3 == 2 and persistent is not None and len(persistent) == n:
            df = persistent                      # the same frame object, columns overwritten in place (one feature set scored against several targets)
            df['f'] = Y
            df['label'] = X
        else:
            df = pd.DataFrame({'f': Y, 'label': X})
            persistent = df
        ok, res = sh.call('plugin-mi', 'get_importances_estimate_pairwise', ie.get_importances_estimate_pairwise, ('f', 'label'), {}, args, df)
        if ok:
            sh.check('plugin-mi', res[0] == 'f' and res[1] == 'label' and oracles.close32(res[2], mi), 'pairwise-estimate!=plugin-mi-of-this-frame', lambda: wit(got=float(res[2]), consecutive_frame=t))
        sh.case((gen.joint_signature(Y, X), 'dispatch'), mi > 1e-3, 'via-dispatch/' + cls)
