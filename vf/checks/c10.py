"""C10 - interaction features represent joint values faithfully (partition-equality oracle on compute_combined_features)."""
from __future__ import annotations

import itertools
import math

from vf import core, gen, oracles, pipe

PROPERTY = 'C10'
RULE = ('cases = one call of compute_combined_features on a string frame: exhaustive 2- and 3-column frames over the alphabet {"", "1", "11"} '
        'with <= 4 rows (quick; alphabet of 4 and <= 5 rows for 2 columns in thorough); random frames (3-7 base columns, 2..400 rows) over '
        'adversarial alphabets (prefix/suffix chains of digits, values containing ":", "|", space, digits followed by ":", empty strings, '
        'unicode with combining marks, long strings), default and non-default (shuffled / filtered / string) row indices, x interaction order 2-4 x caps 1..C(n,k)+1 x {AND, AND_REL}; the interaction columns of the frame that compute_batch_ranking finally scores (missing-value symbols among the constituents); and the score of every '
        'interaction column against the label compared with the score of the explicit value tuple. distinct = (alphabet class, order, '
        'frame hash); non-trivial = the frame contains two different value tuples whose plain concatenations coincide.')
REQUIRED = {'equal-iff-constituents-equal': 200, 'originals-untouched': 200, 'column-count-and-names': 200, 'score=tuple-score': 10}
EXHAUSTIVE_NOTE = {'quick': 'all 2-column frames (<=4 rows) and 3-column frames (<=3 rows) over {"", "1", "11"}',
                   'thorough': 'all 2-column frames over {"", "1", "11", "111"} with <=4 rows, 2-column over 3 letters with <=5 rows, 3-column frames over 3 letters with <=4 rows'}
ASSUMPTIONS = ['64-bit hash collisions are ignored (none can occur at these sizes except by defect)', 'frames hold strings only (no None/NaN)']
WARM = [{}]
WARM_CODE = 'import outrank.core_ranking'

ADVERSARIAL = {
    'digit-prefix-chain': ['', '1', '11', '111', '1111', '2', '12', '21', '121'],
    'separators': [':', '1:', ':1', '1:1', '|', 'a|b', 'a', 'b', '|b', 'a|', ' ', 'a ', ' a', 'a b', '2:a', '1:2:a', '\t'],
    'len-prefix-lookalike': ['1:a', '3:1:a', '1', 'a', '11:a', '1:1', '2:1:', ':'],
    'unicode': ['é', 'é', 'e', '́', 'ß', 'ss', '中', '中中', '😀', '', 'ａ', 'a'],
    'long': ['x' * 50, 'x' * 51, 'x' * 25, 'xx', 'x', ''],
    'numeric-looking': ['0', '00', '0.0', '1e3', '1000', '-1', '1', '01', '10', 'nan', 'None', 'True'],
    'and-words': ['AND', ' AND ', 'a AND b', 'a', 'b', 'AND_REL', ''],
    'more-separators': ['-', 'a-b', 'a', 'b', '_', 'a_b', ',', 'a,b', ';', 'a;b', '\x1f', 'a\x1fb', '&', 'a&b', '+', 'a+b', '/', 'a/b', '#', 'a#b'],
    # witnesses for length-prefix encodings without a delimiter (decimal length, or length mod 10, directly followed by the value)
    'length-prefix-ambiguity': ['12345678901', '77', '1', '345678901277', '32111111111', '3', '111111111277', '9', '92123456789', '1234567892xy', 'xy',
                                '1' * 10, '1' * 11, '1' * 12, '2' * 10, '12' + '7' * 9, '7' * 9 + '2ab', 'ab', ''],
}


def plan(tier, seed):
    shards = []
    k = 8 if tier == 'quick' else 12
    for i in range(k):
        shards.append({'name': 'exhaustive-%d' % i, 'fn': 'shard_exhaustive', 'args': {'part': i, 'parts': k}})
    r = 6 if tier == 'quick' else 28
    for i in range(r):
        shards.append({'name': 'random-%d' % i, 'fn': 'shard_random', 'args': {'part': i, 'parts': r}})
    shards.append({'name': 'scores', 'fn': 'shard_scores', 'args': {}})
    shards.append({'name': 'many-distinct-tuples', 'fn': 'shard_many_tuples', 'args': {}})
    shards.append({'name': 'reference-json', 'fn': 'shard_reference_json', 'args': {}})
    for i in range(2 if tier == 'quick' else 12):
        shards.append({'name': 'pipeline-%d' % i, 'fn': 'shard_pipeline', 'args': {'part': i}})
    return shards


def concat_collision(data, combo):
    """True if two different value tuples of the combination have the same plain concatenation."""
    seen = {}
    for row in zip(*[data[c] for c in combo]):
        j = ''.join(row)
        if j in seen and seen[j] != row:
            return True
        seen.setdefault(j, row)
    return False


def verify(sh, cr, data, cols, label, order, cap, is3mr, cls, sample=False, index=None):
    import pandas as pd
    df = pd.DataFrame(data, columns=cols)
    if index is not None:
        df.index = index          # a sorted / filtered / relabelled frame: rows keep their own labels
    snapshot = df.copy(deep=True)
    args = pipe.make_args(interaction_order=order, combination_number_upper_bound=cap, label_column=label, heuristic='MI-numba-3mr' if is3mr else 'MI-numba-randomized')
    ok, out = sh.call('column-count-and-names', 'compute_combined_features', cr.compute_combined_features, df, args, pipe.NullPbar(), is3mr)
    if not ok:
        return False
    base = [c for c in cols if c != label]
    k = 2 if is3mr else order
    join = ' AND_REL ' if is3mr else ' AND '
    space = list(itertools.combinations(base, k)) if order > 1 else []
    wit = lambda **kw: dict(kw, cls=cls, columns=cols, order=order, cap=cap, is3mr=is3mr, rows=[list(r) for r in zip(*[data[c] for c in cols])][:40])  # noqa: E731
    # originals untouched, caller's frame not mutated, new columns appended after them
    same_prefix = list(out.columns[:len(cols)]) == cols and all(out[c].tolist() == data[c] for c in cols) and len(out) == len(df) and list(out.index) == list(df.index)
    sh.check('originals-untouched', same_prefix, 'original-columns-changed', lambda: wit(out_columns=list(out.columns)))
    sh.check('originals-untouched', df.equals(snapshot) and list(df.columns) == cols, 'caller-frame-mutated', lambda: wit(after=df.head(5).values.tolist()))
    new = list(out.columns[len(cols):])
    names_ok = len(new) == min(cap, len(space)) and len(set(new)) == len(new) and all(n in {join.join(c) for c in space} for n in new)
    sh.check('column-count-and-names', names_ok, 'interaction-columns!=min(cap,C(n,k))-of-the-candidate-names', lambda: wit(new_columns=new, space=len(space)))
    collision_seen = False
    by_name = {join.join(c): c for c in space}
    for nm in new:
        combo = by_name.get(nm)
        if combo is None:
            continue
        vals = out[nm].tolist()
        tuples = list(zip(*[data[c] for c in combo]))
        t2v, v2t, bad = {}, {}, None
        holes = [i for i, v in enumerate(vals) if not isinstance(v, str)]
        for i, (t, v) in enumerate(zip(tuples, vals)):
            if t2v.setdefault(t, v) != v:
                bad = ('same tuple, different values', t, t2v[t], v)
            if v2t.setdefault(v, t) != t:
                bad = ('different tuples, same value', v2t[v], t, v)
        sh.check('equal-iff-constituents-equal', bad is None and not holes and len(vals) == len(tuples), 'interaction-value-not-injective-in-constituents',
                 lambda: wit(column=nm, problem=bad, holes=holes[:5]))
        collision_seen = collision_seen or concat_collision(data, combo)
    sh.case((cls, order, is3mr, core.h64(sorted((c, tuple(v)) for c, v in data.items()))), collision_seen, '%s/order%d%s' % (cls, k, '/AND_REL' if is3mr else ''),
            sample={'columns': cols, 'rows': [list(r) for r in zip(*[data[c] for c in cols])][:6], 'order': order, 'cap': cap, 'new_columns': new[:4],
                    'first_new_values': out[new[0]].tolist()[:4] if new else None} if sample else None)
    return True


def shard_exhaustive(sh, part, parts):
    cr = pipe.fresh_core_ranking()
    if sh.tier == 'quick':
        specs = [(2, ['', '1', '11'], 4), (3, ['', '1', '11'], 3)]
    else:
        specs = [(2, ['', '1', '11', '111'], 4), (2, ['', '1', '11'], 5), (3, ['', '1', '11'], 4)]
    t = 0
    for ncol, alpha, maxrows in specs:
        cols = ['a', 'b', 'c'][:ncol] + ['label']
        for nrows in range(1, maxrows + 1):
            rows_space = list(itertools.product(alpha, repeat=ncol))
            # frames as multisets of rows in canonical order would lose row-order effects: enumerate sequences
            for frame in itertools.product(rows_space, repeat=nrows):
                t += 1
                if t % parts != part:
                    continue
                data = {c: [r[i] for r in frame] for i, c in enumerate(cols[:-1])}
                data['label'] = ['y%d' % (i % 2) for i in range(nrows)]
                verify(sh, cr, data, cols, 'label', ncol if ncol == 2 else (2 if t % 2 else 3), 10 ** 6, False, 'exhaustive-%dcol' % ncol, sample=(t % 20000 == part))
    sh.notes['frames_enumerated_total'] = t


def shard_random(sh, part, parts):
    cr = pipe.fresh_core_ranking()
    rng, nprng = sh.rng('rnd', part), sh.nprng('rnd', part)
    reps = 60 if sh.tier == 'quick' else 300
    for t in range(reps):
        cls = rng.choice(sorted(ADVERSARIAL))
        alpha = ADVERSARIAL[cls]
        nbase = rng.randint(3, 7)
        n = rng.choice([2, 5, 20, 80, 400])
        label = rng.choice(['label', 'y'])
        cols = ['c%d' % i for i in range(nbase)]
        cols.insert(rng.randrange(nbase + 1), label)
        data = {}
        for c in cols:
            sub = rng.sample(alpha, rng.randint(2, len(alpha)))
            data[c] = [rng.choice(sub) for _ in range(n)]
        if cls == 'length-prefix-ambiguity' and rng.random() < 0.8:
            # (a, b) vs (c, d) that coincide when every value is prefixed by its decimal length (or length mod 10) without a delimiter
            a_, b_ = rng.sample([c for c in cols if c != label], 2)
            R = ''.join(rng.choice('0123456789') for _ in range(9))
            bb = ''.join(rng.choice('xyz12') for _ in range(2))
            x = rng.choice('123456789')
            i, j = rng.sample(range(n), 2) if n >= 2 else (0, 0)
            if rng.random() < 0.5:
                data[a_][i], data[b_][i] = '12' + R, bb           # '11'+'12R' + '2'+bb
                data[a_][j], data[b_][j] = '1', R + '2' + bb      # '1'+'1' + '12'+ R2bb
            else:
                data[a_][i], data[b_][i] = x + '2' + R, bb        # len 11 -> '1' + x2R + '2' + bb
                data[a_][j], data[b_][j] = x, R + '2' + bb        # len 1 -> '1' + x + (len 12 -> '2') + R2bb
        elif rng.random() < 0.5:
            # plant an explicit concatenation collision between two columns: (u, v+w) vs (u+v, w)
            a, b = rng.sample([c for c in cols if c != label], 2)
            u, v, w = rng.choice(alpha), rng.choice([x for x in alpha if x] or ['1']), rng.choice(alpha)
            i, j = rng.randrange(n), rng.randrange(n)
            data[a][i], data[b][i] = u, v + w
            data[a][j], data[b][j] = u + v, w
        is3mr = rng.random() < 0.25
        order = rng.choice([2, 2, 3, 4]) if nbase >= 4 else 2
        space = math.comb(nbase, 2 if is3mr else order)
        cap = rng.choice([1, 2, max(1, space - 1), space, space + 1, 10 ** 6])
        index = None
        if t % 4 == 3 and n >= 2:
            kind = rng.choice(['shuffled', 'filtered', 'strings', 'offset'])
            index = {'shuffled': rng.sample(range(n), n), 'filtered': sorted(rng.sample(range(3 * n), n)), 'strings': ['r%d' % i for i in range(n)], 'offset': list(range(100, 100 + n))}[kind]
            cls = cls + '/index-' + kind
        verify(sh, cr, data, cols, label, order, cap, is3mr, cls, sample=(t % 20 == 0), index=index)


def shard_scores(sh):
    """Hence the score of an interaction column equals the score of the explicit value tuple."""
    import pandas as pd
    cr = pipe.fresh_core_ranking()
    rng, nprng = sh.rng('sc'), sh.nprng('sc')
    for t in range(12 if sh.tier == 'quick' else 60):
        cls = rng.choice(sorted(ADVERSARIAL))
        alpha = ADVERSARIAL[cls]
        n = rng.choice([60, 300])
        cols = ['a', 'b', 'c', 'label']
        data = {c: [rng.choice(alpha[:4]) for _ in range(n)] for c in cols[:-1]}
        lab = [(1 if data['a'][i] + '|' + data['b'][i] in {data['a'][0] + '|' + data['b'][0]} else 0) ^ (1 if nprng.random() < 0.2 else 0) for i in range(n)]
        data['label'] = ['y%d' % v for v in lab]
        df = pd.DataFrame(data, columns=cols)
        args = pipe.make_args(interaction_order=2, combination_number_upper_bound=10 ** 6, heuristic=rng.choice(['MI-numba-randomized', 'max-value-coverage', 'MI-numba-3mr']))
        ok, out = sh.call('score=tuple-score', 'compute_combined_features', cr.compute_combined_features, df, args, pipe.NullPbar())
        if not ok:
            continue
        inter = [c for c in out.columns if ' AND ' in c]
        explicit = out[cols].copy()
        for nm in inter:
            a, b = nm.split(' AND ')
            explicit[nm] = ['%d:%s|%d:%s' % (len(x), x, len(y), y) for x, y in zip(data[a], data[b])]
        res = []
        for frame in (out, explicit):
            a2 = pipe.make_args(heuristic=args.heuristic, target_ranking_only='True', combination_number_upper_bound=10 ** 6)
            ok, r = sh.call('score=tuple-score', 'mixed_rank_graph', cr.mixed_rank_graph, frame, a2, pipe.SyncPool(), pipe.NullPbar())
            if not ok:
                break
            res.append({(x, y): float(s) for x, y, s in r.triplet_scores})
        if len(res) != 2:
            continue
        bad = [(k, res[0][k], res[1].get(k)) for k in res[0] if k not in res[1] or not oracles.close32(res[0][k], res[1][k], 2.0)]
        sh.check('score=tuple-score', not bad, 'interaction-score!=score-of-explicit-tuple', lambda: {'heuristic': args.heuristic, 'differences': bad[:5], 'cls': cls, 'rows': df.head(8).values.tolist()})
        sh.case(('scores', cls, t), any(concat_collision(data, nm.split(' AND ')) for nm in inter), 'scores/' + cls)


def shard_pipeline(sh, part):
    """The interaction columns that are actually scored: the frame compute_batch_ranking hands to mixed_rank_graph
    (after every construction / post-processing step) must still satisfy the partition property against its own constituent columns."""
    cr = pipe.fresh_core_ranking()
    captured = []
    real = cr.mixed_rank_graph

    def hooked(input_dataframe, *a, **k):
        captured.append(input_dataframe.copy())
        return real(input_dataframe, *a, **k)
    cr.mixed_rank_graph = hooked
    rng = sh.rng('pipe', part)
    for t in range(25 if sh.tier == 'quick' else 80):
        cls = rng.choice(['missing-symbols', 'missing-symbols'] + sorted(ADVERSARIAL))
        alpha = ['', '{}', 'a', 'b', 'c', 'NA', ' '] if cls == 'missing-symbols' else ADVERSARIAL[cls]
        nbase = rng.randint(2, 4)
        n = rng.choice([6, 30, 120])
        cols = ['c%d' % i for i in range(nbase)] + ['label']
        data = {c: [rng.choice(alpha) for _ in range(n)] for c in cols[:-1]}
        data['label'] = [rng.choice(['0', '1']) for _ in range(n)]
        order = rng.choice([2, 2, 3]) if nbase >= 3 else 2
        heuristic = rng.choice(['MI-numba-randomized', 'MI-numba-3mr', 'max-value-coverage'])
        args = pipe.make_args(heuristic=heuristic, interaction_order=order, target_ranking_only='True', combination_number_upper_bound=10 ** 4,
                              missing_value_symbols=rng.choice([',{}', ',{},NA']))
        rows = [list(r) for r in zip(*[data[c] for c in cols])]
        del captured[:]
        ok, _ = sh.call('equal-iff-constituents-equal', 'compute_batch_ranking', cr.compute_batch_ranking, rows, set(), args, pipe.SyncPool(), cols, pipe.ListLogger(), pipe.NullPbar())
        if not ok or not captured:
            continue
        frame = captured[-1]
        collision_seen = False
        for nm in frame.columns:
            for join in (' AND ', ' AND_REL '):
                if join in nm and all(p_ in data for p_ in nm.split(join)):
                    combo = nm.split(join)
                    vals = frame[nm].tolist()
                    tuples = list(zip(*[frame[c].tolist() for c in combo]))
                    t2v, v2t, bad = {}, {}, None
                    for tp, v in zip(tuples, vals):
                        if t2v.setdefault(tp, v) != v:
                            bad = ('same tuple, different values', tp, t2v[tp], v)
                        if v2t.setdefault(v, tp) != tp:
                            bad = ('different tuples, same value', v2t[v], tp, v)
                    sh.check('equal-iff-constituents-equal', bad is None and tuples == list(zip(*[data[c] for c in combo])), 'scored-interaction-column-not-faithful',
                             lambda: {'column': nm, 'problem': bad, 'heuristic': heuristic, 'rows': rows[:20], 'values': vals[:20]})
                    collision_seen = collision_seen or concat_collision(data, combo)
        sh.case(('pipeline', cls, order, core.h64(rows)), True, 'pipeline/' + cls, sample={'columns': list(frame.columns)[:8], 'rows': rows[:4]} if t % 10 == 0 else None)


def shard_many_tuples(sh):
    """A batch holding hundreds of thousands of distinct value tuples: a joint-value code narrower than 64 bits would make rows
    that disagree on a constituent share a value (birthday bound of a 32-bit code is ~2^16 tuples)."""
    cr = pipe.fresh_core_ranking()
    n = 300000 if sh.tier == 'quick' else 900000
    import hashlib
    U = [hashlib.md5(b'u%d' % i).hexdigest()[:7] for i in range(n // 700 + 1)]       # unstructured tokens (structured ids hash almost injectively)
    V = [hashlib.md5(b'v%d' % i).hexdigest()[:5] for i in range(700)]
    data = {'u': [U[i // 700] for i in range(n)], 'v': [V[i % 700] for i in range(n)], 'w': ['w%d' % (i % 3) for i in range(n)], 'label': ['y%d' % (i % 2) for i in range(n)]}
    cols = list(data)
    verify(sh, cr, data, cols, 'label', 2, 10 ** 6, False, 'many-distinct-tuples(%d rows)' % n, sample=False)
    sh.notes['rows'] = n


def shard_reference_json(sh):
    """Interaction features requested through a reference-model JSON (any number of constituents, independent of --interaction_order)."""
    import json
    import os
    import pandas as pd
    cr = pipe.fresh_core_ranking()
    rng = sh.rng('refjson')
    for t in range(40 if sh.tier == 'quick' else 200):
        cls = rng.choice(sorted(ADVERSARIAL))
        alpha = ADVERSARIAL[cls]
        nbase = rng.randint(3, 6)
        n = rng.choice([6, 40, 200])
        cols = ['f%d' % i for i in range(nbase)] + ['label']
        data = {c: [rng.choice(alpha) for _ in range(n)] for c in cols[:-1]}
        data['label'] = [rng.choice(['0', '1']) for _ in range(n)]
        feats = []
        for _ in range(rng.randint(1, 4)):
            k = rng.randint(2, min(4, nbase))
            combo = rng.sample(cols[:-1], k)
            feats.append(','.join(combo))
        feats += [rng.choice(cols[:-1])]           # a single feature: not a combined one
        path = os.path.join(sh.scratch, 'ref-%d.json' % t)
        with open(path, 'w') as f:
            json.dump({'desc': {'features': feats, 'fields': []}}, f)
        order = rng.choice([1, 1, 2, 3])
        args = pipe.make_args(interaction_order=order, reference_model_JSON=path, combination_number_upper_bound=10 ** 6, heuristic='MI-numba-randomized')
        df = pd.DataFrame(data, columns=cols)
        snap = df.copy(deep=True)
        ok, out = sh.call('column-count-and-names', 'compute_combined_features', cr.compute_combined_features, df, args, pipe.NullPbar())
        if not ok:
            continue
        expected = {}
        for ftr in feats:
            parts = ftr.split(',')
            if len(parts) > 1:
                expected[' AND '.join(sorted(parts))] = tuple(sorted(parts))
        new = list(out.columns[len(cols):])
        sh.check('column-count-and-names', set(new) == set(expected) and list(out.columns[:len(cols)]) == cols, 'reference-json:interaction-columns!=requested-combined-features',
                 lambda: {'requested': feats, 'new_columns': new, 'interaction_order': order})
        sh.check('originals-untouched', df.equals(snap) and all(out[c].tolist() == data[c] for c in cols), 'original-columns-changed', lambda: {'columns': list(out.columns)})
        for nm, combo in expected.items():
            if nm not in out.columns:
                continue
            vals = out[nm].tolist()
            tuples = list(zip(*[data[c] for c in combo]))
            t2v, v2t, bad = {}, {}, None
            for tp, v in zip(tuples, vals):
                if t2v.setdefault(tp, v) != v:
                    bad = ('same tuple, different values', tp, t2v[tp], v)
                if v2t.setdefault(v, tp) != tp:
                    bad = ('different tuples, same value', v2t[v], tp, v)
            sh.check('equal-iff-constituents-equal', bad is None, 'reference-json:interaction-value-not-injective-in-constituents',
                     lambda: {'column': nm, 'problem': bad, 'interaction_order': order, 'constituents': len(combo), 'rows': [list(r) for r in zip(*[data[c] for c in cols])][:20]})
        sh.case(('reference-json', cls, order, core.h64(feats)), True, 'reference-json/order%d' % order, sample={'requested': feats, 'interaction_order': order, 'new_columns': new} if t % 10 == 0 else None)
