"""C16 - line parsers keep every field in its column (the renderer is the specification; parsing must invert it)."""
from __future__ import annotations

import csv
import io
import os

from vf import core, gen, pipe

PROPERTY = 'C16'
RULE = ('cases = one rendered line (or namespace-map file): tables of string cells without line breaks (empty cells first/last/everywhere, '
        'commas, quotes, doubled quotes, leading/trailing spaces, tabs inside CSV cells, unicode incl. U+0085/U+00A0/U+2028-like '
        'whitespace that strip() would eat) rendered as csv-raw / ob-csv (minimal and quote-all quoting; parsed with the delimiters the '
        'real callers pass), tab-separated ob-raw-dump lines, and ob-vw lines (1-5 tokens per namespace, shuffled and omitted namespaces, '
        'unknown namespaces, many lines parsed with the same header in one process); wrong field counts through the streaming loop; '
        'namespace maps with 2- and 3-part lines, types f32/""/other and garbage lines. distinct = (format, cell-class vector, line hash); '
        'non-trivial = the line has an empty edge cell, a quoted delimiter/quote, edge whitespace, or an omitted namespace. Sources end to end: '
        'ob-vw directories (namespace map + data.vw.gz) and ob-csv directories (dataset_desc.json + data.csv) through get_dataset_info and the streaming loop.')
REQUIRED = {'csv-roundtrip': 300, 'tsv-roundtrip': 300, 'vw-roundtrip': 300, 'wrong-count-rejected': 20, 'namespace-map': 30}
ASSUMPTIONS = ['cells contain no line breaks; VW tokens contain no space, "|" or line break and are non-empty', 'the VW two-character prefix is the first two characters of the joined token string of a namespace',
               'two-part namespace-map lines use ids without "_" (the documented form)']
WARM = [{}]
WARM_CODE = 'import outrank.core_ranking'

CELLS = ['', 'a', 'abc', ' a', 'a ', ' ', 'a b', 'a,b', ',', ',,', '"', 'say "hi"', '""', '"a"', "it's", 'a\tb', '\t', 'é', '中文', '😀', ' x', 'x ', '\u0085x', 'x\u0085',
         ' ', '0', '-1', '1.5e3', '{}', '{"k": "v,w"}', 'a;b', 'a|b', 'x' * 300, '\x0bq', 'q\x0c', '\x1c', 'AND', 'nan', 'None']
CELLS += ['C:\\data, old\\', 'say \\"hi\\"', 'back\\slash', '\\', 'p,q\\', '\\"', 'a\\"b,c']      # backslashes are ordinary characters in CSV
TSV_CELLS = [c for c in CELLS if '\t' not in c]


def plan(tier, seed):
    shards = []
    for i in range(3 if tier == 'quick' else 20):
        shards.append({'name': 'csv-%d' % i, 'fn': 'shard_csv', 'args': {'part': i}})
    for i in range(2 if tier == 'quick' else 16):
        shards.append({'name': 'tsv-%d' % i, 'fn': 'shard_tsv', 'args': {'part': i}})
    for i in range(3 if tier == 'quick' else 20):
        shards.append({'name': 'vw-%d' % i, 'fn': 'shard_vw', 'args': {'part': i}})
    shards.append({'name': 'stream', 'fn': 'shard_stream', 'args': {}})
    shards.append({'name': 'namespace-map', 'fn': 'shard_namespace', 'args': {}})
    shards.append({'name': 'raw-dump-preparation', 'fn': 'shard_raw_dump', 'args': {}})
    shards.append({'name': 'sources-end-to-end', 'fn': 'shard_sources', 'args': {}})
    return shards


def nontrivial_cells(cells):
    return bool(cells) and (cells[0] == '' or cells[-1] == '' or any(c != c.strip() or ',' in c or '"' in c for c in cells))


def shard_csv(sh, part):
    from outrank.core_utils import generic_line_parser
    rng = sh.rng('csv', part)
    reps = 1500 if sh.tier == 'quick' else 40000
    for t in range(reps):
        k = rng.choice([1, 2, 3, 5, 9])
        cells = [rng.choice(CELLS) if rng.random() < 0.8 else ''.join(rng.choice('ab ,"\'\t;') for _ in range(rng.randint(0, 6))) for _ in range(k)]
        if k == 1 and cells == ['']:
            cells = ['x']        # a line holding one empty cell is an empty line (no fields at all)
        quoting = rng.choice([csv.QUOTE_MINIMAL, csv.QUOTE_ALL])
        buf = io.StringIO()
        csv.writer(buf, quoting=quoting, lineterminator='\n').writerow(cells)
        line = buf.getvalue()
        if rng.random() < 0.3:
            line = line[:-1] + '\r\n'
        elif rng.random() < 0.1:
            line = line[:-1]
        for source in ('csv-raw', 'ob-csv'):
            delim = rng.choice([',', ',', '\t'])     # task_ranking passes ',', task_instance_ranking and the library default pass '\t'
            args = pipe.make_args(data_source=source)
            ok, got = sh.call('csv-roundtrip', 'generic_line_parser', generic_line_parser, line, delim, args, None, ['c%d' % i for i in range(k)])
            if ok:
                sh.check('csv-roundtrip', list(got) == cells, 'csv-parse!=cells', lambda: {'source': source, 'delimiter_argument': delim, 'line': line, 'cells': cells, 'parsed': list(got)})
        sh.case(('csv', core.h64(line)), nontrivial_cells(cells), 'csv/' + ('quote-all' if quoting == csv.QUOTE_ALL else 'minimal'),
                sample={'cells': cells, 'line': line, 'parsed': list(got) if ok else None} if t % 500 == 0 else None)


def shard_tsv(sh, part):
    from outrank.core_utils import generic_line_parser
    rng = sh.rng('tsv', part)
    reps = 2000 if sh.tier == 'quick' else 60000
    for t in range(reps):
        k = rng.choice([1, 2, 3, 5, 9])
        cells = [rng.choice(TSV_CELLS) if rng.random() < 0.8 else ''.join(rng.choice('ab ,"\' ') for _ in range(rng.randint(0, 5))) for _ in range(k)]
        if rng.random() < 0.3:
            cells[0] = rng.choice(['', ' ', ' ', ' x'])
        if rng.random() < 0.3:
            cells[-1] = rng.choice(['', ' ', 'x ', '\u0085'])
        if rng.random() < 0.05:
            cells = [''] * k
        line = '\t'.join(cells) + rng.choice(['\n', '\n', '\r\n', ''])
        if line.strip('\r\n') == '' and k == 1:
            continue
        args = pipe.make_args(data_source='ob-raw-dump')
        ok, got = sh.call('tsv-roundtrip', 'generic_line_parser', generic_line_parser, line, '\t', args, None, ['c%d' % i for i in range(k)])
        if ok:
            sh.check('tsv-roundtrip', list(got) == cells, 'tsv-parse!=cells', lambda: {'line': line, 'cells': cells, 'parsed': list(got)})
        sh.case(('tsv', core.h64(line)), nontrivial_cells(cells), 'tsv', sample={'cells': cells, 'line': line, 'parsed': list(got) if ok else None} if t % 700 == 0 else None)


VW_TOKS = ['ab', 'abc', 'x1', 'a', 'é1', 'ab_cd', 'AB:1.5', '12345', 'a-b', 'q,r', 'a"b', '中文x', '--', 'ab=3', '{}', 'New\xa0York', 'a\u3000b', '1\u202f000', 'x\ty', 'q\u2009r']


def shard_vw(sh, part):
    from outrank.core_utils import generic_line_parser
    rng = sh.rng('vw', part)
    headers = 6 if sh.tier == 'quick' else 60
    for h in range(headers):
        nns = rng.choice([1, 2, 4, 8])
        ids = rng.sample(['A', 'B', 'C', 'Ab', 'aB', 'z', 'Zq', 'a1', 'x_y', 'Q', 'é', 'nsX'], nns)
        fw_map = {i: 'feat_%s' % i for i in ids}
        header = ['label'] + list(fw_map.values())
        args = pipe.make_args(data_source='ob-vw')
        for t in range(250 if sh.tier == 'quick' else 600):          # many lines with the same header in one process
            present = [i for i in ids if rng.random() < 0.7]
            rng.shuffle(present)
            label = rng.choice(['1', '-1', '0', '1.0', '0.5'])
            first = label + rng.choice(['', ' 2.0', " 'tag", ' 0.3 tag'])
            parts, expected = [first], {}
            unknown = rng.random() < 0.2
            for i in present:
                toks = [rng.choice(VW_TOKS) for _ in range(rng.randint(1, 5))]
                sep = rng.choice([' ', ' ', '  '])
                parts.append(i + ' ' + sep.join(toks) + rng.choice(['', ' ']))
                expected[fw_map[i]] = '-'.join(toks)[2:]
            if unknown:
                parts.insert(rng.randrange(1, len(parts) + 1), 'UNKNOWNNS ab cd')
            line = rng.choice(['|', ' |']).join(parts) + rng.choice(['\n', '\r\n', ''])
            exp_row = [label] + [expected.get(f) for f in header[1:]]
            ok, got = sh.call('vw-roundtrip', 'generic_line_parser', generic_line_parser, line, None, args, fw_map, header)
            if ok:
                sh.check('vw-roundtrip', list(got) == exp_row, 'vw-parse!=namespace-columns', lambda: {'line': line, 'header': header, 'expected': exp_row, 'parsed': list(got), 'line_number_with_this_header': t})
            sh.case(('vw', core.h64((header, line))), len(present) < nns or unknown, 'vw/%dns' % nns,
                    sample={'header': header, 'line': line, 'parsed': list(got) if ok else None} if t % 200 == 0 and h % 2 == 0 else None)


def shard_stream(sh):
    """Wrong field counts are rejected as a whole by the streaming loop (never shifted into other columns)."""
    cr = pipe.fresh_core_ranking()
    rng = sh.rng('stream')
    admitted = []
    real = cr.compute_batch_ranking

    def hooked(line_tmp_storage, *a, **k):
        admitted.extend([list(r) for r in line_tmp_storage])
        return real(line_tmp_storage, *a, **k)
    cr.compute_batch_ranking = hooked
    for run in range(8 if sh.tier == 'quick' else 40):
        fmt = rng.choice(['ob-raw-dump', 'csv-raw'])
        k = rng.randint(3, 5)
        header = ['c%d' % i for i in range(k - 1)] + ['label']
        n = 40
        good, lines = [], []
        pool = TSV_CELLS if fmt == 'ob-raw-dump' else ['a', 'b', '', 'a,b', 'x "y"', ' s', 'é']
        for i in range(n):
            cells = [rng.choice(pool) for _ in range(k - 1)] + [rng.choice(['0', '1'])]
            if fmt == 'ob-raw-dump' and rng.random() < 0.12:
                # a well-formed row whose fields are all empty (or blank): k fields, k-1 tabs - still a row
                cells = [rng.choice(['', '', ' ']) for _ in range(k)]
            bad = rng.random() < 0.3
            truncated = False
            if bad:
                cells = cells[:-1] if rng.random() < 0.5 else cells + ['extra']
                truncated = fmt == 'csv-raw' and rng.random() < 0.4
            if fmt == 'ob-raw-dump':
                line = '\t'.join(cells)
            else:
                buf = io.StringIO()
                csv.writer(buf, lineterminator='').writerow(cells)
                line = buf.getvalue()
                if truncated:
                    # a damaged record: an opening quote that is never closed - only this line may be affected
                    line = 'x,"' + 'truncated'
            lines.append(line)
            if not bad:
                good.append(cells)
        path = os.path.join(sh.scratch, 'stream-%d.txt' % run)
        with open(path, 'w', encoding='utf-8', newline='') as f:
            f.write(('\t' if fmt == 'ob-raw-dump' else ',').join(header) + '\n' + '\n'.join(lines) + '\n')
        del admitted[:]
        args = pipe.make_args(data_source=fmt, minibatch_size=5, heuristic='Constant', subsampling=1)
        ok, _ = sh.call('wrong-count-rejected', 'estimate_importances_minibatches', cr.estimate_importances_minibatches, input_file=path, column_descriptions=header,
                        fw_col_mapping=None, numeric_column_types=set(), batch_size=5, args=args, data_encoding='utf-8', cpu_pool=pipe.SyncPool(),
                        delimiter='\t' if fmt == 'ob-raw-dump' else ',', logger=pipe.ListLogger())
        if not ok:
            continue
        exp = good[:len(good) // 5 * 5]
        sh.check('wrong-count-rejected', admitted == exp, 'admitted-rows!=well-formed-rows', lambda: {'format': fmt, 'header': header, 'admitted': admitted[:8], 'expected': exp[:8], 'n_admitted': len(admitted), 'n_expected': len(exp)})
        for _ in range(len(lines) - len(good)):
            sh.ok('wrong-count-rejected')
        sh.case(('stream', fmt, run), len(lines) > len(good), 'stream/' + fmt, sample={'format': fmt, 'lines': lines[:4], 'admitted': admitted[:3]} if run < 2 else None)


def shard_namespace(sh):
    from outrank.core_utils import parse_namespace
    rng = sh.rng('ns')
    for t in range(60 if sh.tier == 'quick' else 400):
        n = rng.randint(0, 12)
        lines, exp_map, exp_float = [], {}, set()
        used = set()
        for i in range(n):
            kind = rng.choice(['two', 'three-f32', 'three-empty', 'three-other', 'garbage'])
            fid = rng.choice(['A', 'B', 'Ab', 'zz', 'Q1', 'é']) + str(i)
            feat = rng.choice(['feat', 'f', 'user_id', 'price', 'a b']) + str(i)
            if kind == 'two':
                lines.append('%s,%s' % (fid, feat))
                exp_map[fid] = feat
            elif kind == 'garbage':
                lines.append(rng.choice(['', 'justone', 'a,b,c,d', ',,,,']))
            else:
                if rng.random() < 0.5:
                    fid = fid + '_x'
                typ = {'three-f32': 'f32', 'three-empty': '', 'three-other': rng.choice(['u32', 'str', 'F32', 'f64'])}[kind]
                lines.append('%s,%s,%s' % (fid, feat, typ))
                exp_map[fid] = feat
                if typ == 'f32':
                    exp_float.add(feat)
        path = os.path.join(sh.scratch, 'ns-%d.csv' % t)
        with open(path, 'w', encoding='utf-8') as f:
            f.write('\n'.join(lines) + ('\n' if lines and rng.random() < 0.8 else ''))
        ok, res = sh.call('namespace-map', 'parse_namespace', parse_namespace, path)
        if not ok:
            continue
        fl, mp = res
        sh.check('namespace-map', dict(mp) == exp_map and set(fl) == exp_float and list(mp) == list(exp_map), 'namespace-map!=declared-mapping',
                 lambda: {'lines': lines, 'mapping': dict(mp), 'expected_mapping': exp_map, 'float_set': sorted(fl), 'expected_float_set': sorted(exp_float)})
        sh.case(('ns', core.h64(lines)), n > 0, 'namespace-map', sample={'lines': lines[:5], 'mapping': dict(mp), 'float_features': sorted(fl)} if t % 20 == 0 else None)


def shard_raw_dump(sh):
    """ob-raw-dump source preparation (header file + tab-separated part files -> raw_dump.tsv): well-formed parts keep every field in
    its column; parts whose lines do not have the header's width are refused as a whole, never shifted into other columns."""
    from outrank.core_utils import parse_ob_raw_feature_information, generic_line_parser
    rng = sh.rng('rawdump')
    for t in range(20 if sh.tier == 'quick' else 100):
        k = rng.randint(2, 6)
        header = ['label'] + ['col%d' % i for i in range(k - 1)]
        root = os.path.join(sh.scratch, 'raw-%d' % t)
        os.makedirs(os.path.join(root, 'raw_data', '0_header'), exist_ok=True)
        os.makedirs(os.path.join(root, 'raw_data', '1_train', 'part0'), exist_ok=True)
        with open(os.path.join(root, 'raw_data', '0_header', 'header.csv'), 'w') as f:
            f.write('\t'.join(header) + '\n')
        kind = rng.choice(['well-formed', 'well-formed', 'too-wide', 'too-narrow'])
        width = {'well-formed': k, 'too-wide': k + 1, 'too-narrow': k - 1}[kind]
        rows = [[rng.choice(['a', 'b', 'SI', 'phone', '07', 'x y', 'é', '1']) for _ in range(width)] for _ in range(rng.choice([2, 5, 30]))]
        with open(os.path.join(root, 'raw_data', '1_train', 'part0', 'dump0.tsv'), 'w') as f:
            f.write('\t'.join('h%d' % i for i in range(width)) + '\n')       # the parts carry their own header line
            for r in rows:
                f.write('\t'.join(r) + '\n')
        try:
            info = parse_ob_raw_feature_information(root)
            refused = False
        except (AssertionError, Exception) as e:  # noqa: BLE001
            refused = True
            err = repr(e)[:200]
        if kind == 'well-formed':
            if refused:
                sh.fail('tsv-roundtrip', 'raw-dump:well-formed-parts-refused', {'error': err, 'header': header, 'rows': rows[:3]})
                continue
            args = pipe.make_args(data_source='ob-raw-dump')
            with open(info.data_path) as f:
                lines = f.read().split('\n')
            parsed = [list(generic_line_parser(ln + '\n', '\t', args, None, info.column_names)) for ln in lines[1:] if ln != '']
            sh.check('tsv-roundtrip', info.column_names == header and parsed == rows, 'raw-dump:fields-not-in-their-columns', lambda: {'header': header, 'rows': rows[:4], 'dump_rows': parsed[:4], 'columns': info.column_names})
        else:
            shifted = None
            if not refused:
                with open(info.data_path) as f:
                    shifted = f.read().split('\n')[1:4]
            sh.check('wrong-count-rejected', refused, 'raw-dump:wrong-width-parts-accepted-and-shifted', lambda: {'kind': kind, 'header': header, 'part_rows': rows[:3], 'dump_lines': shifted})
        sh.case(('raw-dump', kind, k, t), kind != 'well-formed', 'raw-dump/' + kind, sample={'kind': kind, 'header': header, 'first_row': rows[0]} if t < 3 else None)


def shard_sources(sh):
    """ob-vw (namespace map + gzipped VW file) and ob-csv (dataset_desc.json + data.csv) sources through get_dataset_info and the
    streaming loop: the rows that reach a mini-batch are the table rows, column for column."""
    import gzip
    import json
    from outrank.core_utils import get_dataset_info
    cr = pipe.fresh_core_ranking()
    rng = sh.rng('sources')
    admitted = []
    real = cr.compute_batch_ranking

    def hooked(line_tmp_storage, *a, **k):
        rows = line_tmp_storage
        admitted.extend([list(r) for r in rows])
        if any(c is None for r in rows for c in r):
            # the observation point of this property is the rows entering a mini-batch; what the batch stages do with cells reported
            # as missing (None) is outside it (see DESIGN.md, observations outside the properties), so those batches stop here
            from outrank.core_utils import BatchRankingSummary
            return BatchRankingSummary([], {}), {}, {}, {}
        return real(rows, *a, **k)
    cr.compute_batch_ranking = hooked
    for t in range(10 if sh.tier == 'quick' else 50):
        fmt = rng.choice(['ob-vw', 'ob-csv'])
        root = os.path.join(sh.scratch, 'src-%d' % t)
        os.makedirs(root, exist_ok=True)
        n = 23
        if fmt == 'ob-vw':
            ids = rng.sample(['A', 'B', 'Cq', 'd', 'Ex'], rng.randint(2, 4))
            fw_map = {i: 'feat%s' % i for i in ids}
            with open(os.path.join(root, 'vw_namespace_map.csv'), 'w') as f:
                for i in ids:
                    f.write('%s,%s%s\n' % (i, fw_map[i], rng.choice(['', ',f32', ','])))
            header = ['label'] + [fw_map[i] for i in ids]
            table, lines = [], []
            for r in range(n):
                present = [i for i in ids if rng.random() < 0.8]
                rng.shuffle(present)
                label = rng.choice(['1', '-1'])
                row = {'label': label}
                parts = [label + rng.choice(['', ' 1.0'])]
                for i in present:
                    toks = [rng.choice(VW_TOKS[:15]) for _ in range(rng.randint(1, 3))]
                    parts.append(i + ' ' + ' '.join(toks))
                    row[fw_map[i]] = '-'.join(toks)[2:]
                lines.append(' |'.join(parts))
                table.append([row.get(h) for h in header])
            with gzip.open(os.path.join(root, 'data.vw.gz'), 'wt', encoding='utf-8') as f:
                f.write('\n'.join(lines) + '\n')
            expected = table              # (the streaming loop treats the first line of every source file as a header line: for VW
            #                              files, which have none, the first record is consumed there - either reading is accepted)
        else:
            k = rng.randint(2, 5)
            header = ['c%d' % i for i in range(k - 1)] + ['label']
            with open(os.path.join(root, 'dataset_desc.json'), 'w') as f:
                json.dump({'data_features': [{'name': h, 'type': rng.choice(['string', 'float', 'Float64'])} for h in header]}, f)
            table = [[rng.choice(['a', 'b,c', '', 'x "y"', ' s', 'é', '1.5']) for _ in range(k)] for _ in range(n)]
            buf = io.StringIO()
            w = csv.writer(buf, lineterminator='\n')
            w.writerow(header)
            for r in table:
                w.writerow(r)
            with open(os.path.join(root, 'data.csv'), 'w', encoding='latin1', errors='replace', newline='') as f:
                f.write(buf.getvalue())
            expected = [[c.encode('latin1', 'replace').decode('latin1') for c in r] for r in table]
        args = pipe.make_args(data_source=fmt, data_path=root, minibatch_size=4, heuristic='Constant', subsampling=1)
        ok, info = sh.call('vw-roundtrip' if fmt == 'ob-vw' else 'csv-roundtrip', 'get_dataset_info', get_dataset_info, args)
        if not ok:
            continue
        sh.check('vw-roundtrip' if fmt == 'ob-vw' else 'csv-roundtrip', list(info.column_names) == header, 'dataset-info:column-names!=declared', lambda: {'format': fmt, 'columns': list(info.column_names), 'expected': header})
        del admitted[:]
        ok, _ = sh.call('wrong-count-rejected', 'estimate_importances_minibatches', cr.estimate_importances_minibatches, input_file=info.data_path, column_descriptions=info.column_names,
                        fw_col_mapping=info.fw_map, numeric_column_types=info.column_types, batch_size=4, args=args, data_encoding=info.encoding, cpu_pool=pipe.SyncPool(),
                        delimiter=info.col_delimiter, logger=pipe.ListLogger())
        if not ok:
            continue
        exp = expected[:len(expected) // 4 * 4]
        alt = expected[1:][:(len(expected) - 1) // 4 * 4] if fmt == 'ob-vw' else exp
        sh.check('vw-roundtrip' if fmt == 'ob-vw' else 'csv-roundtrip', admitted in (exp, alt), 'source-rows-not-in-their-columns', lambda: {'format': fmt, 'header': header, 'admitted': admitted[:4], 'expected': exp[:4]})
        sh.case(('source', fmt, t), True, 'source/' + fmt, sample={'format': fmt, 'header': header, 'first_admitted_row': admitted[0] if admitted else None} if t < 4 else None)
