"""Generators shared by the checks (pure Python / numpy; everything is driven by an explicit RNG)."""
from __future__ import annotations

import itertools


def rgs(n):
    """All set partitions of n rows as restricted-growth strings (Bell(n) of them)."""
    def rec(prefix, mx):
        if len(prefix) == n:
            yield tuple(prefix)
            return
        for v in range(mx + 2):
            prefix.append(v)
            yield from rec(prefix, max(mx, v))
            prefix.pop()
    if n == 0:
        yield ()
        return
    yield from rec([0], 0)


def joint_signature(Y, X):
    """Signature of the co-occurrence structure: n + sorted multiset of joint counts with their marginals."""
    from collections import Counter
    Y = [int(v) for v in Y]
    X = [int(v) for v in X]
    cx, cy, cxy = Counter(X), Counter(Y), Counter(zip(X, Y))
    return (len(X), tuple(sorted((c, cx[x], cy[y]) for (x, y), c in cxy.items())))


PAIR_CLASSES = ['uniform', 'zipf', 'giant+singletons', 'alldistinct-vs-any', 'constant-vs-any', 'y=g(x)', 'x=g(y)',
                'near-independent', 'sparse-codes', 'self', 'permuted-self', 'tiny']


def random_pair(rng, nprng, cls, n):
    """One (Y, X) pair of int32 vectors of length n for a named structure class."""
    import numpy as np
    def col(card, skew=None):
        card = max(1, min(card, 1 << 20))
        if skew == 'zipf':
            v = nprng.zipf(1.3 + rng.random(), n) % card
        else:
            v = nprng.integers(0, card, n)
        return v.astype(np.int64)
    kx = rng.choice([2, 3, 5, 10, 30, 100, max(2, int(n ** 0.5)), max(2, n // 3)])
    ky = rng.choice([2, 3, 5, 10, 30, 100, max(2, int(n ** 0.5)), max(2, n // 3)])
    if cls == 'uniform':
        Y, X = col(ky), col(kx)
        if rng.random() < 0.5:  # add dependence
            Y = (Y + X * rng.randint(0, 2)) % ky
    elif cls == 'zipf':
        Y, X = col(ky, 'zipf'), col(kx, 'zipf')
        if rng.random() < 0.5:
            Y = np.where(nprng.random(n) < 0.7, X % ky, Y)
    elif cls == 'giant+singletons':
        X = np.zeros(n, dtype=np.int64)
        m = max(1, n // rng.choice([3, 5, 10]))
        pos = nprng.choice(n, m, replace=False)
        X[pos] = np.arange(1, m + 1)
        Y = col(ky)
        if rng.random() < 0.5:
            Y, X = X, Y
    elif cls == 'alldistinct-vs-any':
        X = nprng.permutation(n).astype(np.int64)
        Y = col(ky)
        if rng.random() < 0.5:
            Y, X = X, Y
    elif cls == 'constant-vs-any':
        X = np.full(n, rng.randint(0, 50), dtype=np.int64)
        Y = col(ky)
        if rng.random() < 0.5:
            Y, X = X, Y
    elif cls == 'y=g(x)':
        X = col(max(kx, 3))
        g = nprng.integers(0, max(2, ky // 2 + 1), int(X.max()) + 1)
        Y = g[X]
    elif cls == 'x=g(y)':
        Y = col(max(ky, 3))
        g = nprng.integers(0, max(2, kx // 2 + 1), int(Y.max()) + 1)
        X = g[Y]
    elif cls == 'near-independent':
        Y, X = col(ky), col(kx)
    elif cls == 'sparse-codes':
        Y, X = col(min(ky, 50)), col(min(kx, 50))
        mapx = nprng.choice(1 << 20, int(X.max()) + 1, replace=False)
        mapy = nprng.choice(1 << 20, int(Y.max()) + 1, replace=False)
        if rng.random() < 0.5:
            mapx[rng.randrange(len(mapx))] = (1 << 20) - 1 if ((1 << 20) - 1) not in set(mapx.tolist()) else mapx[0]
        X, Y = mapx[X], mapy[Y]
        if rng.random() < 0.4:
            Y = (Y // 2 + X // 2) % (1 << 20)
    elif cls == 'self':
        X = col(kx)
        Y = X.copy()
    elif cls == 'permuted-self':
        X = col(kx)
        Y = nprng.permutation(X)
    elif cls == 'tiny':
        Y, X = col(rng.choice([1, 2, 3])), col(rng.choice([1, 2, 3]))
    else:
        raise ValueError(cls)
    return np.ascontiguousarray(Y, dtype=np.int32), np.ascontiguousarray(X, dtype=np.int32)


def chunks(seq, k):
    """Split a sequence into k nearly equal consecutive parts."""
    seq = list(seq)
    n = len(seq)
    out = []
    for i in range(k):
        out.append(seq[i * n // k:(i + 1) * n // k])
    return out


# ---------------------------------------------------------------------------------------------
# string frames (what the pipeline builds from parsed lines)
# ---------------------------------------------------------------------------------------------
ALPHABETS = {
    'ids': lambda i: 'v%d' % i,
    'digits': lambda i: str(i),                      # "10" < "9" lexicographically
    'digits-pad': lambda i: '%s' % ('1' * (i % 7 + 1)) if i < 7 else str(i * 11),  # prefixes of one another
    'unicode': lambda i: ['é', 'ß', '中', '😀', 'z', 'ａ', 'ı', 'Ω'][i % 8] * (i // 8 + 1),
    'spacey': lambda i: [' ', 'a b', ' a', 'a ', 'a  b', '\t'][i % 6] + ('' if i < 6 else str(i)),
    'with-empty': lambda i: '' if i == 0 else 'x%d' % i,
    'numeric-spellings': lambda i: ['7', '07', '7.0', '+7', '1e3', '1000', '10', '9', '-1', '0.5', '.5', ' 7', '7 ', '0x10', '1_000'][i % 15] + ('' if i < 15 else '%d' % i),
    'zero-padded-digits': lambda i: ['7', '07', '007', '0', '00', '10', '010', '\u0667', '70', '0070'][i % 10] + ('' if i < 10 else '%d' % i),
    'missing-symbols': lambda i: ['', '{}', 'NA', 'a', 'b', 'None', 'nan', ' '][i % 8] + ('' if i < 8 else '%d' % i),
    'punct': lambda i: [',', '"', "'", ';', '|', ':', '-', '&', '{}', 'AND'][i % 10] + ('' if i < 10 else str(i)),
}


def string_column(rng, nprng, n, card, alphabet=None, skew=False):
    name = alphabet or rng.choice(sorted(ALPHABETS))
    f = ALPHABETS[name]
    card = max(1, min(card, n))
    if skew:
        idx = nprng.zipf(1.5, n) % card
    else:
        idx = nprng.integers(0, card, n)
    return [f(int(i)) for i in idx], name


def string_frame(rng, nprng, n, ncols, label='label', label_pos=None, alphabets=None, dependent=True, names=None):
    """dict column -> list[str]; the label column sits at ``label_pos`` (default: random)."""
    cols = list(names) if names else ['f%d' % i for i in range(ncols)]
    pos = rng.randrange(ncols + 1) if label_pos is None else label_pos
    cols.insert(pos, label)
    data = {}
    lab_card = rng.choice([2, 2, 3, 5])
    lab_idx = nprng.integers(0, lab_card, n)
    classes = {}
    for c in cols:
        if c == label:
            data[c] = ['c%d' % i for i in lab_idx] if rng.random() < 0.7 else [str(int(i)) for i in lab_idx]
            classes[c] = 'label'
            continue
        card = rng.choice([1, 2, 3, 5, 12, 40, max(2, n // 10), n])
        col, an = string_column(rng, nprng, n, card, alphabet=rng.choice(alphabets) if alphabets else None, skew=rng.random() < 0.3)
        if dependent and rng.random() < 0.5 and card > 1:
            # make the column informative about the label: overwrite a share of rows with a label-determined value
            f = ALPHABETS[an]
            mask = nprng.random(n) < rng.choice([0.3, 0.6, 0.9])
            col = [f(int(lab_idx[i]) % card) if mask[i] else col[i] for i in range(n)]
        data[c] = col
        classes[c] = an
    return data, cols, classes


def xxh32_colliding_pairs(seed, want=2, prefix='user_', limit=1500000):
    """Distinct strings with equal 32-bit xxhash digest under ``seed`` (birthday search, ~0.5 s): identity by digest is not identity."""
    import xxhash
    seen, out = {}, []
    for i in range(limit):
        v = '%s%d' % (prefix, i)
        d = xxhash.xxh32(v.encode('utf-8'), seed=seed).intdigest()
        if d in seen:
            out.append((seen[d], v))
            if len(out) >= want:
                break
        else:
            seen[d] = v
    return out
