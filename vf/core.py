"""Runtime-monitoring framework core.

A *check* (one per property) is a module ``vf.checks.cNN`` exposing

    PROPERTY   = 'C01'
    RULE       = '<how cases are generated; what makes one distinct / non-trivial>'
    REQUIRED   = {'monitor-name': minimum number of evaluations, ...}   # 0 evaluations => inconclusive
    ASSUMPTIONS = [...]
    def plan(tier, seed) -> list[dict(name=, fn=, args=, env=, timeout=)]
    def <fn>(sh: Shard, **args)           # runs one shard of the workload inside a fresh process

The parent process (``run``) starts every shard as a fresh interpreter (``python -m vf.check ID TIER
--shard i``), merges what the monitors of all shards observed, writes the evidence file, prints
VIOLATION / KNOWN-FINDING / INCONCLUSIVE lines and returns the exit code (0 held, 1 violated, 2 inconclusive).
"""
from __future__ import annotations

import concurrent.futures
import hashlib
import importlib
import json
import os
import random
import signal
import subprocess
import sys
import time
import traceback
from collections import Counter

VERIF = os.path.dirname(os.path.dirname(os.path.abspath(__file__)))
OUT = os.environ.get('VF_OUT_DIR') or VERIF   # evidence/ and replays/ live here (redirected while testing mutants)
REPO = os.environ.get('VERIF_REPO', '/repo')
PY = os.environ.get('VERIF_PY', '/venv/bin/python')
MAX_VIOLATIONS_KEPT = 12
MAX_SAMPLES_PER_SHARD = 3


def h64(obj) -> str:
    """Stable 64-bit signature of a JSON-able / bytes object."""
    if isinstance(obj, bytes):
        b = obj
    else:
        b = repr(obj).encode('utf-8', 'surrogatepass')
    return hashlib.blake2b(b, digest_size=8).hexdigest()


def jsonable(o, depth=0):
    """Best-effort conversion of witnesses to JSON (numpy scalars/arrays, tuples, sets, bytes)."""
    try:
        import numpy as np
    except Exception:  # pragma: no cover
        np = None
    if depth > 8:
        return repr(o)[:200]
    if o is None or isinstance(o, (bool, int, str)):
        return o
    if isinstance(o, float):
        if o != o or o in (float('inf'), float('-inf')):
            return repr(o)
        return o
    if np is not None:
        if isinstance(o, np.generic):
            return jsonable(o.item(), depth + 1)
        if isinstance(o, np.ndarray):
            if o.size > 400:
                return {'ndarray_head': jsonable(o.ravel()[:400].tolist(), depth + 1), 'shape': list(o.shape), 'dtype': str(o.dtype)}
            return jsonable(o.tolist(), depth + 1)
    if isinstance(o, bytes):
        return {'bytes': o[:400].hex()}
    if isinstance(o, dict):
        return {str(k): jsonable(v, depth + 1) for k, v in list(o.items())[:400]}
    if isinstance(o, (list, tuple)):
        out = [jsonable(v, depth + 1) for v in list(o)[:400]]
        return out
    if isinstance(o, (set, frozenset)):
        return [jsonable(v, depth + 1) for v in sorted(o, key=repr)[:400]]
    return repr(o)[:400]


class Shard:
    """Worker-side recorder: monitors, violations, case signatures, samples."""

    def __init__(self, prop, tier, seed, name, scratch):
        self.prop, self.tier, self.seed, self.name, self.scratch = prop, tier, seed, name, scratch
        self.monitors = Counter()        # monitor name -> number of oracle evaluations
        self.violations = []             # kept witnesses
        self.n_violations = 0
        self.sigs = {}                   # signature -> nontrivial(bool)
        self.classes = Counter()         # coverage class -> cases
        self.samples = []
        self.evaluations = 0
        self.notes = {}
        self.data = {}                   # bulky per-shard observations for post() (not copied into the evidence file)
        self.inconclusive = []
        self.t0 = time.time()
        self.budget_s = float(os.environ.get('VF_SHARD_BUDGET_S', '0') or 0)

    # ---- randomness -------------------------------------------------------------------
    def rng(self, *salt):
        return random.Random(h64((self.prop, self.seed, self.name) + salt))

    def nprng(self, *salt):
        import numpy as np
        return np.random.default_rng(int(h64((self.prop, self.seed, self.name) + salt), 16))

    # ---- budget (logical caps are primary; this only trims optional extra work) --------------
    def time_left(self, budget_s):
        return time.time() - self.t0 < budget_s

    # ---- recording ----------------------------------------------------------------------
    def case(self, sig, nontrivial=True, cls=None, sample=None):
        """One generated case / execution. ``sig`` identifies it up to the property's notion of distinctness."""
        self.evaluations += 1
        s = sig if isinstance(sig, str) and len(sig) == 16 else h64(sig)
        self.sigs[s] = self.sigs.get(s, False) or bool(nontrivial)
        if cls is not None:
            self.classes[cls] += 1
        if sample is not None and len(self.samples) < MAX_SAMPLES_PER_SHARD:
            self.samples.append(jsonable(sample))

    def ok(self, monitor, n=1):
        self.monitors[monitor] += n

    def fail(self, monitor, key, witness):
        """An oracle was contradicted. ``key`` names the mechanism (used for known-finding matching)."""
        self.monitors[monitor] += 1
        self.n_violations += 1
        if len(self.violations) < MAX_VIOLATIONS_KEPT:
            self.violations.append({'monitor': monitor, 'key': key, 'shard': self.name, 'witness': jsonable(witness)})

    def check(self, monitor, cond, key, witness):
        """Evaluate one oracle verdict. ``witness`` may be a callable (only built on failure)."""
        if cond:
            self.monitors[monitor] += 1
            return True
        self.fail(monitor, key, witness() if callable(witness) else witness)
        return False

    def call(self, monitor, key, fn, *a, **k):
        """Call code under test; an exception escaping it is a violation of 'terminates normally'."""
        try:
            return True, fn(*a, **k)
        except Exception as e:  # noqa: BLE001 - anything the product raises on valid input is a witness
            tb = traceback.format_exc(limit=6)
            self.fail(monitor, key + ':exception:' + type(e).__name__, {'exception': repr(e)[:500], 'traceback': tb[-1500:], 'args': jsonable(a)[:6] if a else None})
            return False, None

    def inconclusive_note(self, msg):
        self.inconclusive.append(msg)

    def dump(self, path):
        out = {
            'shard': self.name, 'evaluations': self.evaluations, 'monitors': dict(self.monitors),
            'violations': self.violations, 'n_violations': self.n_violations,
            'sigs_nontrivial': [s for s, nt in self.sigs.items() if nt],
            'n_sigs': len(self.sigs), 'classes': dict(self.classes), 'samples': self.samples,
            'notes': jsonable(self.notes), 'data': self.data, 'inconclusive': self.inconclusive, 'wall_s': round(time.time() - self.t0, 2),
        }
        tmp = path + '.tmp'
        with open(tmp, 'w') as f:
            json.dump(out, f)
        os.replace(tmp, path)


def anchored_files(prop):
    """Repository files a property is anchored in (properties.jsonl), as absolute paths under the repository being checked."""
    out = []
    try:
        with open(os.path.join(VERIF, 'properties.jsonl')) as f:
            for line in f:
                rec = json.loads(line)
                if rec.get('id') == prop:
                    out = [os.path.realpath(os.path.join(REPO, p)) for p in rec.get('anchors', {}).get('files', [])]
    except OSError:
        pass
    return out


def _start_line_monitor(files):
    """Which lines of the anchored Python files does this shard's workload execute?  sys.monitoring LINE events with per-location
    DISABLE: every location fires at most once, so the overhead is negligible.  (JIT-compiled bodies execute no Python lines.)"""
    mon = getattr(sys, 'monitoring', None)
    if mon is None or not files:
        return None
    wanted = set(files)
    hit = set()
    try:
        tool = mon.COVERAGE_ID
        mon.use_tool_id(tool, 'vf-anchor-lines')

        def on_line(code, line):
            fn = code.co_filename
            if fn in wanted or os.path.realpath(fn) in wanted:
                hit.add((os.path.realpath(fn), line))
            return mon.DISABLE
        mon.register_callback(tool, mon.events.LINE, on_line)
        mon.set_events(tool, mon.events.LINE)
    except Exception:
        return None
    return hit


def function_table(path, hit_lines):
    """Per function of a source file: executable lines (from the compiled code objects) and how many of them were executed."""
    try:
        src = open(path).read()
        top = compile(src, path, 'exec')
    except Exception:
        return []
    rows = []

    def walk(code, qual):
        lines = {ln for _, _, ln in code.co_lines() if ln is not None and ln != code.co_firstlineno}
        own = set(lines)
        for const in code.co_consts:
            if hasattr(const, 'co_lines'):
                sub = walk(const, (qual + '.' if qual else '') + const.co_name)
                own -= sub
        if qual and own:
            rows.append({'function': qual, 'line': code.co_firstlineno, 'executable_lines': len(own), 'executed_lines': len(own & hit_lines),
                         'missed': sorted(own - hit_lines)[:25]})
        return lines
    walk(top, '')
    return sorted(rows, key=lambda r: r['line'])


def load_check(prop):
    return importlib.import_module('vf.checks.' + prop.lower())


def load_known():
    p = os.path.join(VERIF, 'known_findings.json')
    if not os.path.exists(p):
        return []
    with open(p) as f:
        return json.load(f).get('findings', [])


# ------------------------------------------------------------------------------------------
# worker entry
# ------------------------------------------------------------------------------------------
def run_shard(prop, tier, seed, index, out_path):
    mod = load_check(prop)
    shards = mod.plan(tier, seed)
    spec = shards[index]
    scratch = os.environ['VF_SCRATCH']
    wd = os.path.join(scratch, 'wd-%s-%d' % (prop, index))
    os.makedirs(wd, exist_ok=True)
    os.chdir(wd)
    sh = Shard(prop, tier, seed, spec['name'], wd)
    lines_hit = _start_line_monitor(anchored_files(prop))
    try:
        getattr(mod, spec['fn'])(sh, **spec.get('args', {}))
    except Exception:  # harness failure inside a shard: inconclusive, never a violation
        sh.inconclusive_note('harness exception in shard %s: %s' % (spec['name'], traceback.format_exc()[-3000:]))
    if lines_hit is not None:
        agg = {}
        for fn, ln in lines_hit:
            agg.setdefault(fn, []).append(ln)
        sh.data['lines_hit'] = {fn: sorted(v) for fn, v in agg.items()}
    sh.dump(out_path)


# ------------------------------------------------------------------------------------------
# parent entry
# ------------------------------------------------------------------------------------------
def _launch(prop, tier, seed, index, spec, scratch):
    out_path = os.path.join(scratch, 'shard-%s-%d.json' % (prop, index))
    log_path = os.path.join(scratch, 'shard-%s-%d.log' % (prop, index))
    env = dict(os.environ)
    env.update({k: str(v) for k, v in spec.get('env', {}).items()})
    for k in spec.get('unset_env', []):
        env.pop(k, None)
    if 'NUMBA_BOUNDSCHECK' in spec.get('env', {}):
        env['NUMBA_CACHE_DIR'] = os.path.join(scratch, 'nc-boundscheck')
    cmd = [PY, '-X', 'faulthandler', '-m', 'vf.check', prop, tier, '--shard', str(index), '--out', out_path]
    timeout = spec.get('timeout', 900 if tier == 'quick' else 7200)
    t0 = time.time()
    res = {'index': index, 'name': spec['name'], 'status': 'ok', 'returncode': None, 'out': out_path, 'log': log_path}
    with open(log_path, 'wb') as lf:
        try:
            p = subprocess.run(cmd, stdout=lf, stderr=subprocess.STDOUT, env=env, timeout=timeout, cwd=VERIF)
            res['returncode'] = p.returncode
            if p.returncode != 0:
                res['status'] = 'died'
        except subprocess.TimeoutExpired:
            res['status'] = 'timeout'
    res['wall_s'] = round(time.time() - t0, 2)
    return res


def _tail(path, n=1500):
    try:
        with open(path, 'rb') as f:
            return f.read()[-n:].decode('utf-8', 'replace')
    except OSError:
        return ''


def run(prop, tier, seed, only_shard=None):
    t0 = time.time()
    mod = load_check(prop)
    scratch = os.environ['VF_SCRATCH']
    shards = mod.plan(tier, seed)
    indices = list(range(len(shards))) if only_shard is None else [only_shard]
    # Warm the JIT cache once (from the current working tree) so that shards do not compile concurrently.
    if getattr(mod, 'WARM', None) and only_shard is None:
        for extra_env in mod.WARM:
            env = dict(os.environ)
            env.update(extra_env)
            if 'NUMBA_BOUNDSCHECK' in extra_env:
                env['NUMBA_CACHE_DIR'] = os.path.join(scratch, 'nc-boundscheck')
            subprocess.run([PY, '-c', mod.WARM_CODE], env=env, cwd=scratch, stdout=subprocess.DEVNULL, stderr=subprocess.DEVNULL, timeout=600)
    workers = int(os.environ.get('VF_WORKERS', '16'))
    results = []
    with concurrent.futures.ThreadPoolExecutor(max_workers=workers) as ex:
        futs = [ex.submit(_launch, prop, tier, seed, i, shards[i], scratch) for i in indices]
        for f in futs:
            results.append(f.result())

    merged = {'evaluations': 0, 'monitors': Counter(), 'violations': [], 'n_violations': 0, 'sigs': set(), 'n_sigs': 0,
              'classes': Counter(), 'samples': [], 'notes': {}, 'data': {}, 'inconclusive': [], 'shards': [], 'results': results, 'plan': shards}
    for r in results:
        spec = shards[r['index']]
        info = {'name': r['name'], 'status': r['status'], 'wall_s': r['wall_s']}
        data = None
        if os.path.exists(r['out']):
            with open(r['out']) as f:
                data = json.load(f)
        if r['status'] != 'ok' or data is None:
            # A shard may declare that abnormal termination of its process is itself the observation (C04).
            if spec.get('death_is_violation') and r['status'] == 'died':
                merged['n_violations'] += 1
                merged['violations'].append({'monitor': 'process-exit', 'key': 'abnormal-termination', 'shard': r['name'],
                                             'witness': {'returncode': r['returncode'], 'log_tail': _tail(r['log'])}})
            else:
                merged['inconclusive'].append('shard %s %s (rc=%s): %s' % (r['name'], r['status'], r['returncode'], _tail(r['log'], 600)))
        if data is not None:
            merged['evaluations'] += data['evaluations']
            merged['monitors'].update(data['monitors'])
            merged['n_violations'] += data['n_violations']
            merged['violations'].extend(data['violations'])
            merged['sigs'].update(data['sigs_nontrivial'])
            merged['n_sigs'] += data['n_sigs']
            merged['classes'].update(data['classes'])
            merged['samples'].extend(data['samples'][:2])
            if data['notes']:
                merged['notes'][r['name']] = data['notes']
            if data.get('data'):
                merged['data'][r['name']] = data['data']
            merged['inconclusive'].extend(data['inconclusive'])
            info['evaluations'] = data['evaluations']
        merged['shards'].append(info)

    all_hit = {}
    for d in merged['data'].values():
        for fn, lns in (d.get('lines_hit') or {}).items():
            all_hit.setdefault(fn, set()).update(lns)
    anchor_cov = {}
    for fn in anchored_files(prop):
        table = function_table(fn, all_hit.get(fn, set()))
        if table:
            rel = os.path.relpath(fn, os.path.realpath(REPO))
            reached = [r for r in table if r['executed_lines']]
            anchor_cov[rel] = {'functions_reached': [{k: r[k] for k in ('function', 'executable_lines', 'executed_lines', 'missed')} for r in reached],
                               'functions_never_reached': [r['function'] for r in table if not r['executed_lines']],
                               'executed_lines': sum(r['executed_lines'] for r in table), 'executable_lines': sum(r['executable_lines'] for r in table)}
    if hasattr(mod, 'post'):
        # cross-shard oracle (e.g. differential comparison of runs executed in separate processes)
        try:
            mod.post(merged, tier, seed)
        except Exception:
            merged['inconclusive'].append('harness exception in post(): ' + traceback.format_exc()[-2000:])

    # ---- classify -----------------------------------------------------------------------------
    known = [k for k in load_known() if k.get('status') == 'known' and k.get('property') == prop]
    known_keys = {k['key']: k for k in known}
    real, known_hits = [], {}
    for v in merged['violations']:
        if v['key'] in known_keys:
            known_hits[v['key']] = known_keys[v['key']]
        else:
            real.append(v)
    # violations beyond the kept witnesses are counted as real unless every kept one is known
    n_real = len(real) if merged['n_violations'] <= len(merged['violations']) else max(len(real), 1 if real else 0)

    required = getattr(mod, 'REQUIRED', {})
    req = required.get(tier, required) if any(k in required for k in ('quick', 'thorough')) else required
    for mon, minimum in req.items():
        if merged['monitors'].get(mon, 0) < max(1, minimum):
            merged['inconclusive'].append('monitor %r evaluated %d times (< %d)' % (mon, merged['monitors'].get(mon, 0), max(1, minimum)))

    distinct_nontrivial = len(merged['sigs'])
    if distinct_nontrivial < 2 and not real:
        merged['inconclusive'].append('fewer than 2 distinct non-trivial cases observed')

    # ---- replay files ------------------------------------------------------------------------
    replay_dir = os.path.join(OUT, 'replays')
    lines = []
    if real:
        os.makedirs(replay_dir, exist_ok=True)
        path = os.path.join(replay_dir, '%s-%s-seed%d.json' % (prop, tier, seed))
        with open(path, 'w') as f:
            json.dump({'property': prop, 'tier': tier, 'seed': seed, 'violations': real,
                       'how_to_replay': './run_check.sh %s %s --replay %s' % (prop, tier, path)}, f, indent=1)
        lines.append('VIOLATION property=%s replay=%s' % (prop, path))
        for v in real[:5]:
            lines.append('  witness[%s/%s] key=%s %s' % (v['shard'], v['monitor'], v['key'], json.dumps(v['witness'])[:600]))
    for key, k in known_hits.items():
        lines.append('KNOWN-FINDING: property=%s %s' % (prop, k.get('what', key)))

    status = 'violated' if real else ('inconclusive' if merged['inconclusive'] else 'held')
    wall = round(time.time() - t0, 2)
    evidence = {
        'property_id': prop, 'tier': tier, 'seed': seed, 'level': 'exploration',
        'coverage': {
            'evaluations': merged['evaluations'],
            'distinct_nontrivial': distinct_nontrivial,
            'distinct_signatures_total': merged['n_sigs'],
            'rule': mod.RULE,
            'samples': merged['samples'][:10] or ['<no case recorded>'],
            'exhaustive': bool(getattr(mod, 'EXHAUSTIVE', {}).get(tier)) if isinstance(getattr(mod, 'EXHAUSTIVE', None), dict) else False,
            'exhaustive_subspaces': getattr(mod, 'EXHAUSTIVE_NOTE', {}).get(tier, '') if isinstance(getattr(mod, 'EXHAUSTIVE_NOTE', None), dict) else '',
            'monitor_evaluations': dict(merged['monitors']),
            'classes_observed': dict(merged['classes']),
            'shards': merged['shards'],
            'notes': merged['notes'],
            'anchored_python_lines_executed': anchor_cov,
            'verdict': status,
            'inconclusive_reasons': merged['inconclusive'][:10],
            'known_findings_hit': sorted(known_hits),
        },
        'assumptions': list(getattr(mod, 'ASSUMPTIONS', [])),
        'wall_s': wall,
        'violations': len(real),
    }
    os.makedirs(os.path.join(OUT, 'evidence'), exist_ok=True)
    evp = os.path.join(OUT, 'evidence', prop + '.json')
    with open(evp + '.tmp', 'w') as f:
        json.dump(evidence, f, indent=1)
    os.replace(evp + '.tmp', evp)

    for line in lines:
        print(line)
    print('%s %s tier=%s seed=%d evaluations=%d distinct_nontrivial=%d monitors=%s wall=%.1fs' % (
        prop, status.upper(), tier, seed, merged['evaluations'], distinct_nontrivial, dict(merged['monitors']), wall))
    if status == 'inconclusive':
        for m in merged['inconclusive'][:8]:
            print('INCONCLUSIVE property=%s %s' % (prop, m[:800]))
    return {'held': 0, 'violated': 1, 'inconclusive': 2}[status]


def replay(prop, tier, path):
    """Re-run the shards that produced the recorded violations with the recorded seed."""
    with open(path) as f:
        rec = json.load(f)
    seed = rec['seed']
    mod = load_check(prop)
    shards = mod.plan(rec['tier'], seed)
    names = {v['shard'] for v in rec['violations']}
    rc = 0
    for i, s in enumerate(shards):
        if s['name'] in names:
            rc = max(rc, run(prop, rec['tier'], seed, only_shard=i))
    return rc


# helpers for post() oracles (cross-shard comparisons run in the parent)
def post_ok(merged, monitor, n=1):
    merged['monitors'][monitor] += n


def post_fail(merged, monitor, key, shard, witness):
    merged['monitors'][monitor] += 1
    merged['n_violations'] += 1
    if len(merged['violations']) < 4 * MAX_VIOLATIONS_KEPT:
        merged['violations'].append({'monitor': monitor, 'key': key, 'shard': shard, 'witness': jsonable(witness)})
