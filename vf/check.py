"""Entry point: python -m vf.check <ID> <quick|thorough> [--replay F] [--shard i --out path]"""
from __future__ import annotations

import argparse
import os
import sys

from vf import core


def main():
    ap = argparse.ArgumentParser()
    ap.add_argument('prop')
    ap.add_argument('tier', choices=['quick', 'thorough'])
    ap.add_argument('--replay')
    ap.add_argument('--shard', type=int)
    ap.add_argument('--out')
    a = ap.parse_args()
    seed = int(os.environ.get('VERIF_SEED', '0') or 0)
    if a.shard is not None and a.out:
        core.run_shard(a.prop, a.tier, seed, a.shard, a.out)
        return 0
    if a.replay:
        return core.replay(a.prop, a.tier, a.replay)
    return core.run(a.prop, a.tier, seed, only_shard=a.shard)


if __name__ == '__main__':
    sys.exit(main())
