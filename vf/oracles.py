"""Reference models, written independently of the repository code (float64 / pure Python)."""
from __future__ import annotations

import math
from collections import Counter, defaultdict

TOL_ABS = 2e-5
TOL_REL = 2e-6


def close32(got, expected, scale=1.0):
    """Tolerance for a float32 estimator result against a float64 model value."""
    got = float(got)
    if got != got or expected != expected:
        return False
    return abs(got - expected) <= scale * (TOL_ABS + TOL_REL * abs(expected))


def entropy_counts(counts, n):
    h = 0.0
    for c in counts:
        if c:
            p = c / n
            h -= p * math.log(p)
    return h


def entropy(v):
    v = [int(x) for x in v]
    return entropy_counts(Counter(v).values(), len(v))


def plugin_mi(Y, X):
    """Plug-in Shannon MI (nats) from joint and marginal counts: sum p(x,y) log(p(x,y)/(p(x)p(y)))."""
    Y = [int(v) for v in Y]
    X = [int(v) for v in X]
    n = len(X)
    cx, cy, cxy = Counter(X), Counter(Y), Counter(zip(X, Y))
    mi = 0.0
    for (x, y), c in cxy.items():
        mi += (c / n) * math.log(c * n / (cx[x] * cy[y]))
    return mi


def cond_entropy(Y, X):
    """H(Y|X) = sum_x p(x) H(Y | X=x)."""
    n = len(X)
    groups = defaultdict(list)
    for y, x in zip(Y, X):
        groups[int(x)].append(int(y))
    h = 0.0
    for g in groups.values():
        h += (len(g) / n) * entropy_counts(Counter(g).values(), len(g))
    return h


def corrected_model(Y, X):
    """H(Y*|X) - H(Y|X), where within the group of rows with X=x (size c) Y*_i = Y[(i + c) mod n].

    Identical vectors are the self-pair: no correction, score = H(X)."""
    Y = [int(v) for v in Y]
    X = [int(v) for v in X]
    n = len(X)
    if X == Y:
        return entropy(X)
    groups = defaultdict(list)
    for i, x in enumerate(X):
        groups[x].append(i)
    real = 0.0
    displaced = 0.0
    for idx in groups.values():
        c = len(idx)
        if c == 1:
            continue  # a one-row group has zero conditional entropy, displaced or not
        w = c / n
        real += w * entropy_counts(Counter(Y[i] for i in idx).values(), c)
        displaced += w * entropy_counts(Counter(Y[(i + c) % n] for i in idx).values(), c)
    return displaced - real


def subsample_model(X, r32):
    """Row indices the sub-sampled estimator may read, per the property statement.

    S = floor(r*n); q = floor(S / #values); q == 0 -> all rows; else the first q rows of each value,
    values in ascending order (order matters only for the position-dependent corrected score)."""
    import numpy as np
    X = [int(v) for v in X]
    n = len(X)
    S = int(float(np.float32(r32)) * n)  # float32 ratio promoted to float64 times the integer row count
    values = sorted(set(X))
    q = int(S / len(values))
    if q == 0:
        return None, S, q
    rows = []
    for v in values:
        taken = 0
        for i, x in enumerate(X):
            if x == v:
                rows.append(i)
                taken += 1
                if taken == q:
                    break
    return rows, S, q


def subsampled_score_model(Y, X, r32, corrected, rows_override=None):
    """Independent float64 formula for the r<1 estimator (documented behaviour: entropies of the sample,
    weighted by the ORIGINAL stratum sizes and the original n, then scaled by r)."""
    import numpy as np
    Y = [int(v) for v in Y]
    X = [int(v) for v in X]
    n = len(X)
    r = float(np.float32(r32))
    rows, S, q = subsample_model(X, r32)
    if rows_override is not None:
        rows = rows_override
    if X == Y:
        corrected = False
    cx = Counter(X)
    if rows is None:
        Ys, Xs = Y, X
    else:
        Ys, Xs = [Y[i] for i in rows], [X[i] for i in rows]
    m = len(Xs)
    full = 0.0
    if not corrected:
        for c in Counter(Ys).values():
            p = c / n
            full -= p * math.log(p)
    groups = defaultdict(list)
    for i, x in enumerate(Xs):
        groups[x].append(i)
    real = disp = 0.0
    for x in sorted(cx):
        c0 = cx[x]
        if c0 == 1:
            continue
        idx = groups.get(x, [])
        w = c0 / n
        for cnt in Counter(Ys[i] for i in idx).values():
            p = cnt / c0
            real -= w * p * math.log(p)
        if corrected:
            for cnt in Counter(Ys[(i + c0) % m] for i in idx).values():
                p = cnt / c0
                disp -= w * p * math.log(p)
    if corrected:
        return r * (disp - real)
    return r * (full - real)
