#!/bin/bash
# Offline setup: nothing to build or install. The checks use /venv/bin/python (the repository's interpreter with its
# own dependencies), python standard library only on the harness side, and import /repo's working tree via PYTHONPATH.
set -e
cd "$(dirname "$0")"
/venv/bin/python -c "import numpy, numba, pandas, xxhash, pathos, scipy, sklearn; print('deps ok')"
chmod +x run_check.sh tools/*.sh tools/*.py 2>/dev/null || true
mkdir -p evidence replays
