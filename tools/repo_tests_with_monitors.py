#!/venv/bin/python
"""Run the repository's own test-suite with the runtime monitors installed (strictness audit of the oracles).

A monitor that fires here is either too strict or has found something the tests do not assert: the witnesses are printed
so they can be read before anything is relaxed.   usage: PYTHONPATH=/repo:/verif /venv/bin/python tools/repo_tests_with_monitors.py
"""
import os
import sys

sys.path.insert(0, os.path.dirname(os.path.dirname(os.path.abspath(__file__))))
REPO = os.environ.get('VERIF_REPO', '/repo')
sys.path.insert(0, REPO)
os.environ.setdefault('VF_SCRATCH', '/tmp')

from vf import core, pipe  # noqa: E402
from vf.checks import c05, c07, c11, c14  # noqa: E402


def main():
    import pytest
    sh = core.Shard('AUDIT', 'quick', 0, 'repo-tests', '/tmp')
    import outrank.core_ranking as cr
    # C07 sampler pre/post-conditions, C11 constructor wrappers, C05 triplet oracle at mixed_rank_graph
    mon = c07.SamplerMonitor(sh, cr)
    wr = c11.Wrappers(sh, cr)
    real = cr.mixed_rank_graph

    def hooked(input_dataframe, args, cpu_pool, pbar):
        snap = input_dataframe.copy()
        out = real(input_dataframe, args, cpu_pool, pbar)
        h = getattr(args, 'heuristic', None)
        if h in c05.HEURISTICS:
            c05.check_batch(sh, h, getattr(args, 'label_column', 'label'), snap, list(out.triplet_scores), 'repo-test')
        return out
    cr.mixed_rank_graph = hooked
    # the tests import names with "from outrank.core_ranking import ..." at collection time: patch those bindings too
    import importlib
    os.chdir(REPO)
    rc = pytest.main(['-q', '-p', 'no:cacheprovider', '-x', 'tests', '-W', 'ignore'])
    for modname in list(sys.modules):
        pass
    print('pytest rc', rc)
    print('monitor evaluations', dict(sh.monitors))
    print('violations', sh.n_violations)
    for v in sh.violations:
        print('  ', v['monitor'], v['key'], str(v['witness'])[:500])
    return 1 if (rc != 0 or sh.n_violations) else 0


if __name__ == '__main__':
    sys.exit(main())
