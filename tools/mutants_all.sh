#!/bin/bash
# usage: tools/mutants_all.sh [tier] -- run every mutant against the check of its property (name prefix), 4 at a time; writes mutants/RESULTS.txt
TIER="${1:-quick}"
cd "$(dirname "$0")/.."
ls mutants/*.diff | xargs -P 4 -I{} bash -c 'm={}; id=$(basename $m | cut -c1-3); r=$(tools/mutant.sh $m $id '"$TIER"' 2>&1 | tail -1); echo "$r"' | sort > mutants/RESULTS.txt
cat mutants/RESULTS.txt | awk '{print $NF}' | sort | uniq -c
