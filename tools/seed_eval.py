#!/usr/bin/env python3
"""Confirm and evaluate a seeded change.

usage: seed_eval.py <src-dir with patch.diff + demo.py [+ notes.md]> <seed-id> <property> [--checks C01,C05] [--tier quick] [--no-tests] [--keep]

Steps (all on scratch copies of /repo under /tmp, removed afterwards):
  1. patch applies to a clean copy;            2. demo passes on the clean copy, fails on the patched copy;
  3. the repository's test-suite passes on the patched copy;   4. the listed checks (default: the property's own) are run on the
  patched copy - rc 1 = caught.  With --keep the confirmed seed is stored as /verif/seeded/<seed-id>/ (patch.diff, demo.py, meta.json).
"""
import argparse
import json
import os
import shutil
import subprocess
import sys
import tempfile
import time

PY = '/venv/bin/python'


def sh(cmd, cwd=None, env=None, timeout=3600):
    p = subprocess.run(cmd, cwd=cwd, env=env, stdout=subprocess.PIPE, stderr=subprocess.STDOUT, timeout=timeout, text=True, errors='replace')
    return p.returncode, p.stdout


def main():
    ap = argparse.ArgumentParser()
    ap.add_argument('src')
    ap.add_argument('seed_id')
    ap.add_argument('prop')
    ap.add_argument('--checks')
    ap.add_argument('--tier', default='quick')
    ap.add_argument('--no-tests', action='store_true')
    ap.add_argument('--keep', action='store_true')
    a = ap.parse_args()
    src = os.path.abspath(a.src)
    checks = (a.checks or a.prop).split(',')
    W = tempfile.mkdtemp(prefix='vf-seed-')
    meta = {'seed_id': a.seed_id, 'property': a.prop, 'ran': []}
    try:
        for name in ('clean', 'patched'):
            subprocess.check_call(['rsync', '-a', '--exclude', '.git', '--exclude', '__pycache__', '--exclude', '*.egg-info', '--exclude', '.nbcache', '/repo/', os.path.join(W, name) + '/'])
        rc, out = sh(['patch', '-p1', '-s', '-i', os.path.join(src, 'patch.diff')], cwd=os.path.join(W, 'patched'))
        meta['patch_applies'] = rc == 0
        if rc != 0:
            print('PATCH DOES NOT APPLY', out[-500:])
            return 3
        res = {}
        for name in ('clean', 'patched'):
            env = dict(os.environ, PYTHONPATH=os.path.join(W, name), NUMBA_CACHE_DIR=os.path.join(W, 'nc-' + name), PYTHONWARNINGS='ignore')
            shutil.copy(os.path.join(src, 'demo.py'), os.path.join(W, name, '_seed_demo.py'))
            rc, out = sh([PY, '_seed_demo.py'], cwd=os.path.join(W, name), env=env, timeout=1800)
            res[name] = rc
            meta['demo_' + name + '_rc'] = rc
            meta['demo_' + name + '_tail'] = out[-400:]
            meta['ran'].append('demo.py on %s copy -> rc %d' % (name, rc))
        print('demo: clean rc=%d patched rc=%d' % (res['clean'], res['patched']))
        meta['demo_confirms'] = res['clean'] == 0 and res['patched'] != 0
        if not a.no_tests:
            env = dict(os.environ, PYTHONPATH=os.path.join(W, 'patched'), NUMBA_CACHE_DIR=os.path.join(W, 'nc-patched'))
            t0 = time.time()
            rc, out = sh([PY, '-m', 'pytest', '-q', '-p', 'no:cacheprovider', '--timeout=900', '-x'], cwd=os.path.join(W, 'patched'), env=env, timeout=3600)
            meta['tests_pass_with_patch'] = rc == 0
            meta['tests_tail'] = out.strip().splitlines()[-1] if out.strip() else ''
            meta['ran'].append('pytest on patched copy -> rc %d (%s) in %.0fs' % (rc, meta['tests_tail'], time.time() - t0))
            print('tests with patch: rc=%d %s' % (rc, meta['tests_tail']))
        caught = {}
        for c in checks:
            env = dict(os.environ, VERIF_REPO=os.path.join(W, 'patched'), VF_OUT_DIR=os.path.join(W, 'out'))
            t0 = time.time()
            rc, out = sh(['/verif/run_check.sh', c, a.tier], env=env, timeout=7200)
            lines = [l for l in out.splitlines() if 'conda' not in l.lower()]
            caught[c] = rc
            key = next((l.strip()[:300] for l in lines if l.strip().startswith('witness[')), '')
            meta['ran'].append('./run_check.sh %s %s on patched copy -> rc %d in %.0fs %s' % (c, a.tier, rc, time.time() - t0, key))
            print('check %s %s: rc=%d  %s' % (c, a.tier, rc, key[:200]))
            if rc == 2:
                print('\n'.join(lines[-6:])[:1500])
        meta['checks_rc'] = caught
        meta['caught_by'] = [c for c, rc in caught.items() if rc == 1]
        if a.keep:
            dst = os.path.join('/verif/seeded', a.seed_id)
            os.makedirs(dst, exist_ok=True)
            if os.path.abspath(src) != os.path.abspath(dst):       # re-evaluating a stored seed in place: nothing to copy
                shutil.copy(os.path.join(src, 'patch.diff'), dst)
                shutil.copy(os.path.join(src, 'demo.py'), dst)
                if os.path.exists(os.path.join(src, 'notes.md')):
                    shutil.copy(os.path.join(src, 'notes.md'), dst)
            old = {}
            mp = os.path.join(dst, 'meta.json')
            if os.path.exists(mp):
                old = json.load(open(mp))
            merged = dict(old.get('checks_rc', {}))
            merged.update(caught)                                   # a partial re-run replaces only the checks it ran
            old.update(meta)
            old['checks_rc'] = merged
            old['caught_by'] = [c for c, rc in merged.items() if rc == 1]
            json.dump(old, open(mp, 'w'), indent=1)
        return 0
    finally:
        shutil.rmtree(W, ignore_errors=True)


if __name__ == '__main__':
    sys.exit(main())
