#!/usr/bin/env python3
"""Regenerate /verif/MANIFEST.json from the table below (keeps the file schema-valid at all times)."""
import json
import os

HERE = os.path.dirname(os.path.dirname(os.path.abspath(__file__)))

# property -> (technique, level text, level note, design ref)
CHECKS = {
    'C01': ('reference-model monitor (float64 plug-in MI) over exhaustive small partitions + random structures; numba bounds sanitizer pass; interpreted (JIT-off) pass with line-level record of the kernel source executed',
            'Every estimator call of the workload is compared with an independent float64 plug-in MI and its corollaries (symmetry, bounds, constant => 0, self => entropy). All pairs of set partitions up to n=6/7 are enumerated, so any structural error visible on <=7 rows is caught; larger inputs are sampled per structure class.',
            'Trusts the float64 oracle and the float32 tolerance; inputs beyond the generated classes are not covered.', '3/C01'),

    'C02': ('metamorphic monitor (score before/after injective relabelling) + displaced-copy model to detect a mis-applied self-pair rule; pipeline runs with order-reversed value names; pairs one row apart at lengths around power-of-two block sizes; interpreted (JIT-off) pass',
            'Each case is scored before and after relabelling either side, with and without correction; the corrected score of non-identical pairs must equal the displaced-copy model rather than the plain score, so a self-pair rule triggered by anything weaker than element-wise identity is observed. Exhaustive for all partition pairs on <=5/6 rows x all injective maps; targeted family of equal-sum / equal-histogram pairs.',
            'Relabellings that make a non-identical pair identical are excluded from the corrected comparison. Trusts the C03 model.', '3/C02'),
    'C03': ('reference-model monitor (explicit displaced-copy conditional entropies in float64) + planted-signal ranking family through the heuristic-name dispatch; interpreted (JIT-off) pass; fault injection (numba unavailable)',
            'Every corrected score is compared with H(Y*|X)-H(Y|X) computed from the statement; all ordered partition pairs on <=6/7 rows (hence all row orders), row-order variants of random structures, and a planted family (>20 sigma margin) that the uncorrected score demonstrably fails.',
            'Trusts the float64 model; ranking corollary sampled over seeds at n in {4000, 8000, 16384}.', '3/C03'),
    'C04': ('process-level sanitizers on the JIT estimator: MALLOC_PERTURB_ matrix in fresh interpreters, NUMBA_BOUNDSCHECK=1, interpreted (JIT-off) pass under the bounds checks of numpy itself, in-process heap grooming, valgrind memcheck (thorough); bit-exact differential across executions; row model; metamorphic outside-sample insensitivity',
            'The same case list (exhaustive small partitions x all ratios, targeted unequal strata) runs in 6 differently poisoned/bounds-checked interpreters whose exit status and float bits are compared; a model of the sampling rule fixes which rows may be read, and altering feature values outside them must not change a bit.',
            'Red-zone tools miss in-bounds wrong reads (covered by the row model). MALLOC_PERTURB_ must reach numba NRT allocations (verified: the unfixed tree crashes/differs).', '3/C04'),
    'C05': ('invariant at a hook: wrapper around core_ranking.mixed_rank_graph recomputes every emitted triplet from the frame it was given, with an independent coding and per-heuristic definitions; default-size and identifier-like-target (> 2^15 conditioning values) batches',
            'Every triplet of every monitored batch (in-process pool, compute_batch_ranking path, real process pool) is recomputed by definition of the selected heuristic with the label as conditioning target; documented heuristic names are harvested from the repository at run time and must not degrade to constants.',
            'pearsonr/AMI of scipy/sklearn are trusted on the oracle codes; values contain no NUL and no None.', '3/C05'),
    'C06': ('set-model monitor at the batch boundary; sampler wrapped to record the offered candidates, pool wrapped to record evaluated tasks',
            'For every monitored batch the offered pair set must equal the requested set of the mode, the evaluated pairs must be a subset of size min(cap, offered) evaluated after the cap, every row pair must appear in both orientations with the same score (once for Constant) and mention frame columns only. Exhaustive for <=5/6 columns x label position x mode x heuristic class x every cap.',
            '(rel, rel) self-pairs under 3MR+pairwise are optional; diagonal pairs may repeat.', '3/C06'),
    'C07': ('pre/post-condition monitor (snapshot counter before, compare after) on prior_combinations_sample, in direct histories and inside pipeline runs; exported counts vs logged selections',
            'Every sampler call of every history is checked for: returned subset of offered, exactly min(cap, m) distinct, least-evaluated-first against the prior counts, +1 on exactly the selected keys, spread <= 1 on stable duplicate-free lists; all cap sequences on <=5/6 candidates are enumerated; the counts exported by the library and the task must equal the selections observed.',
            'Fairness asserted for duplicate-free lists only. Counter observed through the module attribute.', '3/C07'),

    'C08': ('invariant at a hook: wrapper on compute_batch_ranking records rows in / triplets out and reads the checkpoint left by the previous batch; independent file reader + median of the defined scores as oracle; aggregation step driven alone over score histories with undefined (NaN) scores',
            'For every streaming run the batches handed to the ranker must equal those of an independent reader of the file (subsampling, validity, batch trigger, tail rule), the invalid-line count must match, the grouped result / pairwise_ranks.tsv must be the per-pair median in ascending order, and at every batch boundary the on-disk checkpoint must hold the median of the batches so far. Exhaustive for rows<=12, batch<=5, subsampling<=3 and every single corrupted row.',
            'Scoring heuristics only (Constant writes no checkpoint). Python csv defines field counts. Cells contain no line breaks.', '3/C08'),
    'C09': ('schedule perturbation + differential oracle: fresh processes running the real task with the real process pool, per-task injected delays, per-run PYTHONHASHSEED; event log proves distinct completion orders',
            'The (A,B)->score text of pairwise_ranks.tsv must be identical across pool sizes, delay seeds, hash seeds, repetitions and an in-process synchronous reference; the run matrix must exhibit >= 3 distinct completion orders and multi-pid overlap, otherwise the verdict is inconclusive.',
            'Delays perturb ordering only. Schedules not produced by the perturbation are not covered.', '3/C09'),
    'C10': ('partition-equality oracle on the columns appended by compute_combined_features; exhaustive tiny frames over {"", "1", "11"}; planted concatenation/length-prefix ambiguities',
            'For every emitted interaction column, equality of values must coincide with equality of the constituent tuples; originals and the caller frame must be untouched; the number and names of new columns must be min(cap, C(n,k)) candidates; the score of an interaction column must equal the score of the explicit tuple.',
            '64-bit hash collisions ignored. Strings only.', '3/C10'),
    'C11': ('snapshot-before / compare-after wrappers on all five feature constructors while compute_batch_ranking runs all 2^5 flag subsets; cell-level recomputation of the stated rules',
            'Every constructor invocation is checked for: old columns preserved in place, new columns complete and row-aligned, caller frame untouched, MULTIEX cells = token membership, one-/two-sided sub-feature cells = stated rule, CONTROL-target = label.',
            'RangeIndex string frames; feature names avoid &,|,-. Noise flag: pipeline raises later (out of scope), constructor still observed.', '3/C11'),

    'C12': ('reference-model monitor: formulas derived from transformer names (table + fw-name parser) evaluated with scalar arithmetic; keep/drop rule re-evaluated; preset-union and vault-immutability monitors',
            'Every emitted cell of every (column class x transformer) case is compared with the formula its name states; every emitted column must satisfy the keep rule and every dropped candidate must fail it (borderline cases skipped); every ordered pair/triple of preset names must select exactly the union and leave the presets themselves unchanged.',
            'Finite inputs; 1-ulp library differences at exact .5 rounding boundaries are skipped.', '3/C12'),
    'C13': ('reference-model monitor over histories of batches: set/Counter recomputation of coverage, cardinality, repetition histogram and rare-value table; differential across all compositions of the same row sequence; files of real task runs across mini-batch sizes; > 2^17 distinct values returning in later batches',
            'All 2^(n-1) compositions of row sequences with n<=9/11 are driven and every statistic must equal the exact recomputation and be identical across compositions; the files written by the ranking and rare-value tasks are compared across mini-batch sizes and with the recomputation.',
            'Cardinality exact below warm-up capacity (32-bit collisions re-examined).', '3/C13'),
    'C14': ('class-invariant monitor: shadow set maintained beside every sketch, len() compared at sampled prefixes, duplicates re-inserted around the warm-up boundary; monitoring subclass installed in the pipeline',
            'Exactness for <= 2^18 distinct values, 2% accuracy up to 2^19 (quick) / 2^21 (thorough), invariance under re-insertion of seen values (also after the switch, incl. full replay) and insertion order are checked on real sketches, including the exact boundary crossing with a duplicate arriving at a full warm-up set.',
            'Statistical 2% bound has > 8 sigma margin.', '3/C14'),
    'C15': ('shadow-counter invariants checked after every update on several simultaneously live sketches/counters and on the per-column counters the pipeline keeps; one pass under NUMBA_BOUNDSCHECK=1',
            'estimate >= true weight, estimate <= total weight, every row sums to the total; bounded counter never over-counts, is exact below its bound, never tracks more than bound keys; instances are interleaved so state shared between instances is observed.',
            'Integer weights, totals < 2^31.', '3/C15'),
    'C16': ('renderer-as-specification round-trip monitor for csv / tab-separated / VW lines and namespace maps; admitted rows of the streaming loop compared with the well-formed rows; ob-vw / ob-csv sources through dataset info and the streaming loop',
            'Every generated table row is rendered and must be parsed back cell for cell (CSV with both quoting styles and with the delimiter arguments real callers pass; tab-separated rows with empty edge cells and exotic whitespace; VW lines with shuffled/omitted/unknown namespaces, many lines per header in one process); rows with a wrong field count must be rejected whole.',
            'Cells without line breaks; VW prefix = first two characters of the joined token string.', '3/C16'),

    'C17': ('post-condition monitor in exact rational arithmetic on rank_features_3MR (direct calls and installed on task_ranking during real 3MR task runs)',
            'Every returned ranking must be a permutation with ranks 1..n whose first element has maximal relevance and whose every later element maximises relevance - alpha*agg(redundancy) + beta*agg(relation) over the remaining features (missing pairs = 0), recomputed with Fractions; dense/sparse symmetric dictionaries, ties, negatives, all strategies.',
            'Symmetric dictionaries; 1e-12*scale slack for the float arithmetic of the implementation.', '3/C17'),
    'C18': ('pure recomputation oracle over the files written by outrank_task_result_summary on generated triplet tables and on real task outputs',
            'feature_singles.tsv must list exactly the features paired with the label, once each, with the median of their label scores (min-max normalised for MI-type heuristics: best 1, worst 0), in descending order; the aggregated table must hold per-constituent medians of the written interaction scores.',
            'Base names avoid "-", "AND", numerals, NA tokens.', '3/C18'),
    'C19': ('domain-model monitor on generate_data / naive generator / generator task; bit-exact repetition (same object, new object, after unrelated RNG use, fresh processes)',
            'Shape and dtype, per-column domain membership (default range, value list, value/frequency pair, random draw within bounds), declared positions of structured features, representation when n >= |domain|, and seed reproducibility are checked on every generated data set; the naive label must be a binary function of the needle; data.csv must equal the arrays.',
            'Ascending in-range structure indices.', '3/C19'),
    'C20': ('direct recomputation oracles on every generator method and its dataset_info record; harness-supplied tie-free decision functions',
            'Pearson(source, correlated) = r within 1e-6; duplicates/combinations equal their sources/functions and are recorded at their positions (also when chained); labels are a monotone step function with the requested cumulative proportions (+-1); categorical noise stays within floor(p*n) cells and the feature\'s own domain; missing noise places exactly floor(p*n) markers; inputs are never mutated; down-sampling returns exactly n rows per class drawn from that class.',
            'n <= 600/2000 for the n x n projector; markers representable in the dtype; dyadic class distributions.', '3/C20'),
}

PENDING_REASON = 'check not built yet in this revision (planned: runtime monitor per DESIGN.md section 3)'
ALL = ['C%02d' % i for i in range(1, 21)]


def main():
    checks = []
    for pid in ALL:
        if pid not in CHECKS:
            continue
        tech, text, note, ref = CHECKS[pid]
        checks.append({
            'property_id': pid,
            'quick_cmd': './run_check.sh %s quick' % pid,
            'thorough_cmd': './run_check.sh %s thorough' % pid,
            'evidence_file': 'evidence/%s.json' % pid,
            'replay_cmd_template': './run_check.sh %s quick --replay {path}' % pid,
            'engine': 'vf',
            'level_claimed': {'category': 'exploration', 'text': text, 'design_ref': 'DESIGN.md section ' + ref},
            'level_note': note,
            'technique': tech,
        })
    manifest = {
        'version': 1,
        'setup_cmd': './setup.sh',
        'hooks': {
            'guard': 'OUTRANK_VERIF',
            'enable': 'no source hooks: monitors are attached from the harness (module attributes, arguments, files); run_check.sh exports OUTRANK_VERIF=1 for symmetry only',
            'baseline_off_cmd': 'cd /repo && /venv/bin/python -m pytest -ra -q -p no:cacheprovider --timeout=900 --continue-on-collection-errors',
            'source_commits': [],
            'add_only': True,
        },
        'engines': [{'name': 'vf', 'path': 'vf/', 'serves_properties': sorted(CHECKS),
                     'kind_free_text': 'runtime monitors: reference-model / invariant-at-hook oracles over generated, exhaustive-small and stress workloads in fresh processes; heap poisoning, numba bounds sanitizer, valgrind for the JIT estimator'}],
        'checks': checks,
        'notes': 'Exit codes: 0 held on everything observed, 1 violation (VIOLATION line + replay file), 2 inconclusive (a deciding monitor was not reached / a shard died or timed out). See DESIGN.md.',
        'not_applicable': [{'property_id': p, 'reason': PENDING_REASON} for p in ALL if p not in CHECKS],
    }
    with open(os.path.join(HERE, 'MANIFEST.json'), 'w') as f:
        json.dump(manifest, f, indent=1)
        f.write('\n')


if __name__ == '__main__':
    main()
