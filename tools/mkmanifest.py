#!/usr/bin/env python3
"""Regenerate /verif/MANIFEST.json from the table below (keeps the file schema-valid at all times)."""
import json
import os

HERE = os.path.dirname(os.path.dirname(os.path.abspath(__file__)))

# property -> (technique, level text, level note, design ref)
CHECKS = {
    'C01': ('reference-model monitor (float64 plug-in MI) over exhaustive small partitions + random structures; numba bounds sanitizer pass',
            'Every estimator call of the workload is compared with an independent float64 plug-in MI and its corollaries (symmetry, bounds, constant => 0, self => entropy). All pairs of set partitions up to n=6/7 are enumerated, so any structural error visible on <=7 rows is caught; larger inputs are sampled per structure class.',
            'Trusts the float64 oracle and the float32 tolerance; inputs beyond the generated classes are not covered.', '3/C01'),
}

PENDING_REASON = 'check not built yet in this revision (planned: runtime monitor per DESIGN.md section 3)'
ALL = ['C%02d' % i for i in range(1, 21)]


def main():
    checks = []
    for pid in ALL:
        if pid not in CHECKS:
            continue
        tech, text, note, ref = CHECKS[pid]
        checks.append({
            'property_id': pid,
            'quick_cmd': './run_check.sh %s quick' % pid,
            'thorough_cmd': './run_check.sh %s thorough' % pid,
            'evidence_file': 'evidence/%s.json' % pid,
            'replay_cmd_template': './run_check.sh %s quick --replay {path}' % pid,
            'engine': 'vf',
            'level_claimed': {'category': 'exploration', 'text': text, 'design_ref': 'DESIGN.md section ' + ref},
            'level_note': note,
            'technique': tech,
        })
    manifest = {
        'version': 1,
        'setup_cmd': './setup.sh',
        'hooks': {
            'guard': 'OUTRANK_VERIF',
            'enable': 'no source hooks: monitors are attached from the harness (module attributes, arguments, files); run_check.sh exports OUTRANK_VERIF=1 for symmetry only',
            'baseline_off_cmd': 'cd /repo && /venv/bin/python -m pytest -ra -q -p no:cacheprovider --timeout=900 --continue-on-collection-errors',
            'source_commits': [],
            'add_only': True,
        },
        'engines': [{'name': 'vf', 'path': 'vf/', 'serves_properties': sorted(CHECKS),
                     'kind_free_text': 'runtime monitors: reference-model / invariant-at-hook oracles over generated, exhaustive-small and stress workloads in fresh processes; heap poisoning, numba bounds sanitizer, valgrind for the JIT estimator'}],
        'checks': checks,
        'notes': 'Exit codes: 0 held on everything observed, 1 violation (VIOLATION line + replay file), 2 inconclusive (a deciding monitor was not reached / a shard died or timed out). See DESIGN.md.',
        'not_applicable': [{'property_id': p, 'reason': PENDING_REASON} for p in ALL if p not in CHECKS],
    }
    with open(os.path.join(HERE, 'MANIFEST.json'), 'w') as f:
        json.dump(manifest, f, indent=1)
        f.write('\n')


if __name__ == '__main__':
    main()
