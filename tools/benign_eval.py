#!/usr/bin/env python3
"""Evaluate a behaviour-preserving change (refactor / optimisation): every check must stay silent on it.

usage: benign_eval.py <src-dir with patch.diff + check.py [+ notes.md]> <id> <property> [--checks C01,C05|auto] [--tier quick] [--no-tests] [--keep]

Steps (on scratch copies of /repo under /tmp, removed afterwards):
  1. patch applies to a clean copy;     2. the author's check.py passes on the clean and on the patched copy;
  3. the repository's test-suite passes on the patched copy;
  4. the checks are run on the patched copy (default 'auto': the property's own check plus every check anchored in a file the patch
     touches) - rc 0 = silent (expected), rc 1 = alarm (to be classified by reading the witness: either the change does break a
     property, or the check is wrong), rc 2 = inconclusive (the harness lost its observation point).
With --keep the change is stored as /verif/seeded/benign/<id>/ (patch.diff, check.py, notes.md, meta.json).
"""
import argparse
import json
import os
import re
import shutil
import subprocess
import sys
import tempfile
import time

PY = '/venv/bin/python'


def sh(cmd, cwd=None, env=None, timeout=3600):
    p = subprocess.run(cmd, cwd=cwd, env=env, stdout=subprocess.PIPE, stderr=subprocess.STDOUT, timeout=timeout, text=True, errors='replace')
    return p.returncode, p.stdout


def auto_checks(prop, patch):
    touched = set(re.findall(r'^\+\+\+ b/(\S+)', open(patch).read(), flags=re.M))
    out = [prop]
    for line in open('/verif/properties.jsonl'):
        d = json.loads(line)
        if d['id'] != prop and touched & set(d['anchors']['files']):
            out.append(d['id'])
    return out, sorted(touched)


def main():
    ap = argparse.ArgumentParser()
    ap.add_argument('src')
    ap.add_argument('bid')
    ap.add_argument('prop')
    ap.add_argument('--checks', default='auto')
    ap.add_argument('--tier', default='quick')
    ap.add_argument('--no-tests', action='store_true')
    ap.add_argument('--keep', action='store_true')
    ap.add_argument('--restrict', help='of the automatically chosen checks run only these (comma separated)')
    a = ap.parse_args()
    src = os.path.abspath(a.src)
    patch = os.path.join(src, 'patch.diff')
    if a.checks == 'auto':
        checks, touched = auto_checks(a.prop, patch)
    else:
        checks, touched = a.checks.split(','), auto_checks(a.prop, patch)[1]
    if a.restrict:
        checks = [c for c in checks if c in a.restrict.split(',')]
        if not checks:
            print('nothing to run')
            return 0
    W = tempfile.mkdtemp(prefix='vf-benign-')
    meta = {'id': a.bid, 'property': a.prop, 'kind': 'behaviour-preserving change: every check must stay silent', 'files_touched': touched, 'ran': []}
    try:
        for name in ('clean', 'patched'):
            subprocess.check_call(['rsync', '-a', '--exclude', '.git', '--exclude', '__pycache__', '--exclude', '*.egg-info', '--exclude', '.nbcache', '/repo/', os.path.join(W, name) + '/'])
        rc, out = sh(['patch', '-p1', '-s', '-i', patch], cwd=os.path.join(W, 'patched'))
        meta['patch_applies'] = rc == 0
        if rc != 0:
            print('PATCH DOES NOT APPLY', out[-500:])
            return 3
        if os.path.exists(os.path.join(src, 'check.py')):
            for name in ('clean', 'patched'):
                env = dict(os.environ, PYTHONPATH=os.path.join(W, name), NUMBA_CACHE_DIR=os.path.join(W, 'nc-' + name), PYTHONWARNINGS='ignore')
                shutil.copy(os.path.join(src, 'check.py'), os.path.join(W, name, 'check.py'))
                rc, out = sh([PY, 'check.py'], cwd=os.path.join(W, name), env=env, timeout=1800)
                meta['author_check_%s_rc' % name] = rc
                meta['ran'].append('check.py on %s copy -> rc %d' % (name, rc))
                print('author check on %s: rc=%d %s' % (name, rc, out[-200:].replace('\n', ' | ') if rc else ''))
        if not a.no_tests:
            env = dict(os.environ, PYTHONPATH=os.path.join(W, 'patched'), NUMBA_CACHE_DIR=os.path.join(W, 'nc-patched'))
            t0 = time.time()
            rc, out = sh([PY, '-m', 'pytest', '-q', '-p', 'no:cacheprovider', '--timeout=900', '-x'], cwd=os.path.join(W, 'patched'), env=env, timeout=3600)
            meta['tests_pass_with_patch'] = rc == 0
            meta['tests_tail'] = out.strip().splitlines()[-1] if out.strip() else ''
            meta['ran'].append('pytest on patched copy -> rc %d (%s) in %.0fs' % (rc, meta['tests_tail'], time.time() - t0))
            print('tests with patch: rc=%d %s' % (rc, meta['tests_tail']))
        rcs = {}
        for c in checks:
            env = dict(os.environ, VERIF_REPO=os.path.join(W, 'patched'), VF_OUT_DIR=os.path.join(W, 'out'))
            t0 = time.time()
            rc, out = sh(['/verif/run_check.sh', c, a.tier], env=env, timeout=7200)
            lines = [l for l in out.splitlines() if 'conda' not in l.lower()]
            rcs[c if a.tier == 'quick' else c + '@' + a.tier] = rc
            key = next((l.strip()[:400] for l in lines if l.strip().startswith('witness[')), '')
            meta['ran'].append('./run_check.sh %s %s on patched copy -> rc %d in %.0fs %s' % (c, a.tier, rc, time.time() - t0, key))
            print('check %s %s: rc=%d  %s' % (c, a.tier, rc, key[:300]))
            if rc == 2:
                print('\n'.join(lines[-6:])[:1500])
        meta['checks_rc'] = rcs
        meta['silent'] = all(rc == 0 for rc in rcs.values())
        if a.keep:
            dst = os.path.join('/verif/seeded/benign', a.bid)
            os.makedirs(dst, exist_ok=True)
            for f in ('patch.diff', 'check.py', 'notes.md'):
                if os.path.exists(os.path.join(src, f)) and os.path.abspath(src) != os.path.abspath(dst):
                    shutil.copy(os.path.join(src, f), dst)
            mp = os.path.join(dst, 'meta.json')
            old = json.load(open(mp)) if os.path.exists(mp) else {}
            merged = dict(old.get('checks_rc', {}), **rcs)       # a partial re-run replaces only the checks it ran
            old.update(meta)
            old['checks_rc'] = merged
            old['silent'] = all(rc == 0 for rc in merged.values())
            json.dump(old, open(mp, 'w'), indent=1)
        return 0
    finally:
        shutil.rmtree(W, ignore_errors=True)


if __name__ == '__main__':
    sys.exit(main())
