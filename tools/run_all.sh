#!/bin/bash
# usage: tools/run_all.sh [quick|thorough] [seed]  -- runs every registered check sequentially, prints one line per check.
TIER="${1:-quick}"; export VERIF_SEED="${2:-0}"
cd "$(dirname "$0")/.."
for i in $(seq -w 1 20); do
  t0=$(date +%s)
  out=$(./run_check.sh C$i "$TIER" 2>&1 | grep -v -i conda)
  rc=$?
  echo "$out" | grep -E "VIOLATION|KNOWN-FINDING|INCONCLUSIVE|HELD|VIOLATED" | cut -c1-260
  echo "   -> C$i rc=$(echo "$out" | grep -q ' HELD ' && echo 0 || echo nonzero) $(( $(date +%s) - t0 ))s"
done
