#!/usr/bin/env python3
"""Rebuild seeded/RESULTS.md from the meta.json of every seed (what seeds_all.py writes at its end; use after partial re-runs)."""
import json, os
ids = sorted(i for i in os.listdir('/verif/seeded') if os.path.isdir('/verif/seeded/' + i) and os.path.exists('/verif/seeded/%s/meta.json' % i) and i != 'benign')
lines = ['# Seeded changes: final detection matrix', '', '| seed | property | needs to manifest | demo clean/patched rc | tests pass with patch | caught by (rc=1) | not caught by |', '|---|---|---|---|---|---|---|']
for sid in ids:
    m = json.load(open('/verif/seeded/%s/meta.json' % sid))
    rc = m.get('checks_rc', {})
    lines.append('| %s | %s | %s | %s/%s | %s | %s | %s |' % (sid, m.get('property'), m.get('needs_to_manifest', ''), m.get('demo_clean_rc'), m.get('demo_patched_rc'), m.get('tests_pass_with_patch'),
                 ', '.join(c for c, r in rc.items() if r == 1) or '-', ', '.join('%s(rc=%s)' % (c, r) for c, r in rc.items() if r != 1) or '-'))
open('/verif/seeded/RESULTS.md', 'w').write('\n'.join(lines) + '\n')
print(len(ids), 'seeds;', sum(1 for l in lines if '| - | ' in l and l.startswith('| C')), 'not caught by any check')
