#!/usr/bin/env python3
"""Run every behaviour-preserving change under seeded/benign (or, with --from DIR, under DIR/<Cxx>/<Rk>, storing it) against the checks.
usage: benign_all.py [-j N] [--from /tmp/seedout5] [--only C05,C06] [--tier quick] [--no-tests]
Writes seeded/benign/RESULTS.md: one line per change with the rc of every check run (all must be 0)."""
import argparse, json, os, subprocess, sys
from concurrent.futures import ThreadPoolExecutor
ap = argparse.ArgumentParser()
ap.add_argument('-j', type=int, default=3)
ap.add_argument('--from', dest='src')
ap.add_argument('--only')
ap.add_argument('--tier', default='quick')
ap.add_argument('--no-tests', action='store_true')
ap.add_argument('--restrict')
ap.add_argument('--own-only', action='store_true', help='run only the check of the property the change was written for')
a = ap.parse_args()
root = '/verif/seeded/benign'
os.makedirs(root, exist_ok=True)
jobs = []
if a.src:
    for p in sorted(os.listdir(a.src)):
        for r in sorted(os.listdir(os.path.join(a.src, p))):
            d = os.path.join(a.src, p, r)
            if os.path.exists(os.path.join(d, 'patch.diff')):
                jobs.append((d, '%s-%s' % (p, r), p))
else:
    for b in sorted(os.listdir(root)):
        if os.path.exists(os.path.join(root, b, 'patch.diff')):
            jobs.append((os.path.join(root, b), b, b.split('-')[0]))
if a.only:
    keep = a.only.split(',')
    jobs = [j for j in jobs if j[2] in keep or j[1] in keep]


def run(job):
    d, bid, prop = job
    cmd = [sys.executable, '/verif/tools/benign_eval.py', d, bid, prop, '--tier', a.tier, '--keep'] + (['--no-tests'] if a.no_tests else []) + (['--checks', prop] if a.own_only else []) + (['--restrict', a.restrict] if a.restrict else [])
    p = subprocess.run(cmd, stdout=subprocess.PIPE, stderr=subprocess.STDOUT, text=True)
    print('=== %s\n%s' % (bid, '\n'.join(l for l in p.stdout.splitlines() if 'conda' not in l.lower())), flush=True)


with ThreadPoolExecutor(a.j) as ex:
    list(ex.map(run, jobs))
lines = ['# Behaviour-preserving changes: every check must stay silent (rc 0)', '', '| change | property | files | author check clean/patched | tests | checks (rc) | silent |', '|---|---|---|---|---|---|---|']
for b in sorted(os.listdir(root)):
    mp = os.path.join(root, b, 'meta.json')
    if os.path.exists(mp):
        m = json.load(open(mp))
        lines.append('| %s | %s | %s | %s/%s | %s | %s | %s |' % (b, m['property'], ', '.join(os.path.basename(f) for f in m.get('files_touched', [])), m.get('author_check_clean_rc'), m.get('author_check_patched_rc'),
                     'pass' if m.get('tests_pass_with_patch') else ('?' if 'tests_pass_with_patch' not in m else 'FAIL'), ' '.join('%s=%d' % kv for kv in m.get('checks_rc', {}).items()), 'yes' if m.get('silent') else 'NO'))
open(os.path.join(root, 'RESULTS.md'), 'w').write('\n'.join(lines) + '\n')
