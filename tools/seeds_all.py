#!/usr/bin/env python3
"""Re-run every seeded change in /verif/seeded against its checks (property's own check + OTHER_CHECKS) and write seeded/RESULTS.md.
usage: tools/seeds_all.py [-j N]   (patch + demo are re-confirmed; the repository test-suite is NOT re-run here, see meta.json)"""
import json, os, subprocess, sys, concurrent.futures
OTHER = {'C01-C': 'C03,C05,C09', 'C01-D': 'C03', 'C02-A': 'C04', 'C02-C': 'C05', 'C03-B': 'C05,C09', 'C03-C': 'C05', 'C03-D': 'C05', 'C04-C': 'C05,C09',
         'C07-C': 'C06', 'C07-D': 'C06', 'C08-D': 'C16', 'C11-C': 'C10', 'C14-D': 'C13', 'C15-D': 'C13', 'C16-C': 'C08', 'C13-C': 'C15', 'C02-E': 'C05', 'C02-F': 'C01,C03', 'C03-F': 'C05', 'C08-E': 'C16', 'C13-F': 'C14', 'C02-G': 'C01', 'C03-H': 'C05', 'C05-H': 'C04', 'C07-T': 'C06', 'C15-Q': 'C13'}
THOROUGH = {'C07-F', 'C14-F', 'C19-E', 'C19-F', 'C14-S'}
J = int(sys.argv[sys.argv.index('-j') + 1]) if '-j' in sys.argv else 4
ids = sorted(os.listdir('/verif/seeded'))
ids = [i for i in ids if os.path.isdir('/verif/seeded/' + i) and os.path.exists('/verif/seeded/%s/patch.diff' % i)]
def run(sid):
    prop = sid[:3]
    checks = prop + (',' + OTHER[sid] if sid in OTHER else '')
    p = subprocess.run(['python3', '/verif/tools/seed_eval.py', '/verif/seeded/' + sid, sid, prop, '--checks', checks, '--no-tests', '--keep'] + (['--tier', 'thorough'] if sid in THOROUGH else []), stdout=subprocess.PIPE, stderr=subprocess.STDOUT, text=True)
    return sid, p.stdout
with concurrent.futures.ThreadPoolExecutor(J) as ex:
    out = dict(ex.map(run, ids))
lines = ['# Seeded changes: final detection matrix', '', '| seed | property | needs to manifest | demo clean/patched rc | tests pass with patch | caught by (rc=1) | not caught by |', '|---|---|---|---|---|---|---|']
for sid in ids:
    m = json.load(open('/verif/seeded/%s/meta.json' % sid))
    rc = m.get('checks_rc', {})
    lines.append('| %s | %s | %s | %s/%s | %s | %s | %s |' % (sid, m.get('property'), m.get('needs_to_manifest', ''), m.get('demo_clean_rc'), m.get('demo_patched_rc'), m.get('tests_pass_with_patch'),
                 ', '.join(c for c, r in rc.items() if r == 1) or '-', ', '.join('%s(rc=%s)' % (c, r) for c, r in rc.items() if r != 1) or '-'))
open('/verif/seeded/RESULTS.md', 'w').write('\n'.join(lines) + '\n')
print('\n'.join(l for l in lines if '| - |' in l.replace('| -  |', '| - |')))
