#!/bin/bash
# usage: tools/mutant.sh <patch-file> <ID> [tier]   -- run one check against a scratch copy of /repo with the patch applied.
# The copy lives under /tmp and is removed afterwards; evidence/replays of the run go to a scratch out dir.
set -u
PATCH="$(readlink -f "$1")"; ID="$2"; TIER="${3:-quick}"
W="$(mktemp -d /tmp/vf-mut-XXXXXX)"
trap 'rm -rf "$W"' EXIT
rsync -a --exclude .git --exclude __pycache__ --exclude '*.egg-info' /repo/ "$W/repo/"
( cd "$W/repo" && patch -p1 -s < "$PATCH" ) || { echo "PATCH-FAILED $PATCH"; exit 3; }
VERIF_REPO="$W/repo" VF_OUT_DIR="$W/out" /verif/run_check.sh "$ID" "$TIER" 2>&1 | grep -v -i conda | cut -c1-400 | head -12
rc=${PIPESTATUS[0]}
echo "MUTANT $(basename "$PATCH") check=$ID tier=$TIER rc=$rc"
exit $rc
