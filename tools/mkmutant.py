#!/usr/bin/env python3
"""usage: mkmutant.py <name> <prop> <relpath> <<< 'OLD\n=====\nNEW'   -- write mutants/<prop>-<name>.diff (one textual replacement in /repo)."""
import difflib, sys, os
name, prop, rel = sys.argv[1:4]
old, new = sys.stdin.read().split('\n=====\n')
new = new.rstrip('\n') + '\n' if old.endswith('\n') else new.rstrip('\n')
src = open(os.path.join('/repo', rel)).read()
if not old.endswith('\n'):
    old = old
assert src.count(old) == 1, ('pattern count', src.count(old))
dst = src.replace(old, new)
d = ''.join(difflib.unified_diff(src.splitlines(True), dst.splitlines(True), 'a/' + rel, 'b/' + rel))
out = os.path.join('/verif/mutants', '%s-%s.diff' % (prop, name))
open(out, 'w').write(d)
print(out, len(d.splitlines()), 'lines')
