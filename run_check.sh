#!/bin/bash
# usage: ./run_check.sh <ID> <quick|thorough> [--replay FILE]
# Runs one property check against /repo's current working tree (imported via PYTHONPATH, JIT code compiled
# into a fresh cache inside this run's scratch directory, so nothing stale is ever executed and /repo is not written).
set -u
HERE="$(cd "$(dirname "$0")" && pwd)"
ID="$1"; TIER="$2"; shift 2
export VERIF_SEED="${VERIF_SEED:-0}"
export VERIF_TIER="$TIER"
export VERIF_REPO="${VERIF_REPO:-/repo}"
export OUTRANK_VERIF=1
SCR="$(mktemp -d "${TMPDIR:-/tmp}/vf-$ID-XXXXXX")"
trap 'rm -rf "$SCR"' EXIT
export VF_SCRATCH="$SCR"
export NUMBA_CACHE_DIR="$SCR/nc"
export PYTHONPATH="$VERIF_REPO:$HERE"
export PYTHONHASHSEED="${PYTHONHASHSEED:-$VERIF_SEED}"
export PYTHONDONTWRITEBYTECODE=1
export OMP_NUM_THREADS=1 OPENBLAS_NUM_THREADS=1 MKL_NUM_THREADS=1 NUMBA_NUM_THREADS=1
export PYTHONWARNINGS=ignore
cd "$HERE"
/venv/bin/python -m vf.check "$ID" "$TIER" "$@"
